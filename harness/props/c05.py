"""C05 -- spheregroup partitions points into friends-of-friends components."""
import math

from harness import common as C
from harness.props import c04 as G     # geometry helpers of the generator (offset_point, sphere_point, ...)

ID = 'C05'
PROPS_V = 'C05/Props.v'
LEVEL = 'proof'
TRUSTED = [
    'translate/c05.py: Python ast -> statements of C05/Imp.v for class groups, chunks.friendsoffriends and the spheregroup tail; normalised source text '
    'of groups.sphereradec, chunks.chunkfriendsoffriends and the head of spheregroup(); goddard.astro.gcirc over the reals through the extractor '
    'translate/c18.py gen_gcirc (Generated/Groups.v); C05/GenRef.v is the hand-maintained reference they must equal',
    'hand-written models in C05/Model.v, C05/Algo.v (renumbering / list tail of spheregroup, friendsoffriends tail, mapGroups merge, per-cell groups) -- '
    'tied to the code by exact reproduction of the returned arrays from recorded intermediate values',
    'harness/impl/c05_impl.py: wraps chunks.friendsoffriends / chunkfriendsoffriends from the harness process to record intermediate values',
    'link relation: computed IN COQ from the coordinates the caller passes (exact rationals) by interval arithmetic (C05/Sky.v, library Interval with '
    'Bignums floats, 150 bits; soundness C05_sky_link_certified); pydl\'s gcirc only breaks ties inside the band |sep - L| <= 1e-9 L + 1e-13 rad',
    'Coq stdlib Lists, Arith, ZArith, Relations; Reals (classical Dedekind reals axioms, functional extensionality, classic), Uint63 primitive-integer '
    'axioms (through Bignums/Interval) for the link-relation theorems only',
]
ASSUMPTIONS = [
    'pair_coverage (every linked pair lies together in some cell list built by chunks.assign) is a HYPOTHESIS of the conditional theorems; '
    'C05_pair_coverage_reduction reduces it to home_assigned + margin_coverage, C05_margin_coverage_exact_nowrap proves those in exact arithmetic '
    'away from the seam from the two margin inequalities; floating point, the seam wrap cell and the real-number margin inequalities are not '
    'connected: the correspondence run searches for counterexamples (output is canonical, so any missed link shows up as a different array)',
    'inputs: 2..64 points (family `large`: 135..300), RA written anywhere in [-720, 1080] degrees (conventional range, exactly 0.0 / 360.0, RA + 360, RA - 360), |Dec| <= 90, '
    'linklength 1 mas .. 20 deg, chunksize None or any positive value (values below 4*linklength are raised by the code)',
    'pairs whose separation is within 1e-9 (relative) of the linking length are not generated except in family `near` (1e-4 for integer / float32 '
    'coordinate arrays); inside the band 1e-9 L + 1e-13 rad either link decision is accepted (the implementation\'s is used)',
    'coordinate arrays of any layout / byte order / writeability (family `layout`); plain Python lists are outside (the code uses .size); '
    'linklength / chunksize as Python or NumPy scalars or 0-d arrays (family `argtype`; with a float32 linking length pairs within 1e-4 of it are not judged)',
    'coordinate arrays: float64, float32, int64, int32, int16 (whole degrees) and mixtures; 8-bit integer arrays are excluded (RA does not fit; '
    'numpy wraps dec.max()-dec.min())',
]

D2R = math.pi / 180.0


def translate(ctx):
    """regenerate coq/Generated/Groups.v (statements of class groups, chunks.friendsoffriends, spheregroup tail)"""
    import os
    from translate import c05 as T
    text, info = T.generate(C.REPO)
    if text is not None:
        info['changed'] = C.write_if_changed(os.path.join(C.COQ, 'Generated', 'Groups.v'), text)
    else:
        info['restored_committed_file'] = C.restore_generated('coq/Generated/Groups.v')
        info['note'] = 'source shape not recognised; the committed Generated/Groups.v is restored and the correspondence run alone ties the models to the code'
    return {'Groups': info}


def chain(rng, start, ll, m, bearing, wobble=8.0):
    pts = [start]
    for _ in range(m - 1):
        eps = rng.choice([1e-3, 1e-2, 1e-1])
        p = G.offset_point(pts[-1][0], pts[-1][1], ll * (1 - eps), bearing + rng.uniform(-wobble, wobble))
        pts.append(p)
    return pts


def start_point(rng, ll, where):
    if where == 'seam':
        j = rng.choice([0, 0, 1, 2, 3, 4, 5])
        return G.norm_ra(360.0 - 60.0 * j + rng.uniform(-3, 3) * ll), rng.uniform(-70, 70)
    if where == 'pole':
        s = rng.choice([-1.0, 1.0])
        return rng.random() * 360.0, s * (90.0 - min(rng.uniform(0.2, 6.0) * ll, 40.0))
    return G.sphere_point(rng)


def gen_base(rng, fam):
    if fam == 'near':
        return near_case(rng)
    if fam == 'layout':
        return layout_case(rng)
    if fam == 'argtype':
        return argtype_case(rng)
    if fam == 'large':
        return large_case(rng)
    if fam == 'dtype':
        return dtype_case(rng)
    if fam == 'pole-exact':
        return pole_exact_case(rng)
    if fam.startswith('seam-'):
        return seam_straddle_case(rng, fam[5:])
    if fam == 'polar-cap':
        return polar_cap_case(rng)
    if fam == 'edge-lattice':
        return edge_lattice_case(rng)
    if fam == 'polebound':
        # declination range aimed at the rounding of chunks.__init__'s last declination bound (see harness/props/c04.py)
        c = G.polebound_case(rng)
        pts = list(zip(c['ra1'], c['dec1'])) + list(zip(c['ra2'], c['dec2']))
        pts = [p for p in pts if min(c['dec1']) <= p[1] <= max(c['dec1'])]
        return limit_cost({'fam': fam, 'ra': [p[0] for p in pts], 'dec': [p[1] for p in pts], 'linklength': c['L'],
                           'chunksize': c['chunksize']})
    ll = G.pick_L(rng, 1.0 / 3600.0, 20.0)
    pts = []
    if fam in ('chain-ra', 'chain-dec', 'chain-diag', 'seam', 'pole'):
        where = fam if fam in ('seam', 'pole') else 'any'
        for _ in range(rng.randint(1, 3)):
            s = start_point(rng, ll, where)
            b = {'chain-ra': rng.choice([90.0, 270.0]), 'chain-dec': rng.choice([0.0, 180.0]),
                 'chain-diag': rng.choice([45.0, 135.0, 225.0, 315.0]),
                 'seam': rng.choice([90.0, 270.0, 60.0, 300.0]),
                 'pole': (0.0 if s[1] > 0 else 180.0) + rng.uniform(-20, 20)}[fam]
            pts += chain(rng, s, ll, rng.randint(4, 16), b)
    elif fam == 'joined':
        # two parallel chains, joined only through a short bridge at one end (built last, so it often lies in a third cell)
        s = start_point(rng, ll, rng.choice(['any', 'seam']))
        b = rng.choice([90.0, 0.0, 45.0, 270.0])
        m = rng.randint(5, 12)
        A = chain(rng, s, ll, m, b, wobble=2.0)
        s2 = G.offset_point(s[0], s[1], ll * rng.uniform(2.2, 3.0), b + 90.0)
        B = chain(rng, s2, ll, m, b, wobble=2.0)
        a_end, b_end = A[-1], B[-1]
        # bridge: points from a_end towards b_end
        br = []
        cur = a_end
        for _ in range(6):
            d = G_sep(cur, b_end)
            if d <= ll * 0.95:
                break
            cur = G.offset_point(cur[0], cur[1], ll * 0.9, G_bearing(cur, b_end))
            br.append(cur)
        pts = A + B + br
        if rng.random() < 0.5:
            # a second pair of chains bridged to the first (forces a merge of two already-merged roots)
            s3 = G.offset_point(s[0], s[1], ll * rng.uniform(2.2, 3.0), b - 90.0)
            Cc = chain(rng, s3, ll, m, b, wobble=2.0)
            c_end = Cc[-1]
            cur = a_end
            for _ in range(6):
                d = G_sep(cur, c_end)
                if d <= ll * 0.95:
                    break
                cur = G.offset_point(cur[0], cur[1], ll * 0.9, G_bearing(cur, c_end))
                pts.append(cur)
            pts += Cc
    elif fam == 'clusters':
        for _ in range(rng.randint(2, 5)):
            c = start_point(rng, ll, rng.choice(['any', 'seam', 'pole']))
            for _ in range(rng.randint(1, 8)):
                pts.append(G.offset_point(c[0], c[1], ll * rng.uniform(0.0, 2.5), rng.uniform(0, 360)))
        for _ in range(rng.randint(0, 8)):
            pts.append(G.sphere_point(rng))
        if rng.random() < 0.3 and pts:
            pts.append(pts[0])      # a duplicate position
    elif fam == 'highdec':
        ll = G.pick_L(rng, 0.2, 10.0)
        s = rng.choice([-1.0, 1.0])
        top = rng.uniform(80.0, 89.9)
        bot = rng.uniform(20.0, top - min(8.0 * ll, 30.0))
        for _ in range(rng.randint(4, 12)):
            pts.append((rng.random() * 360.0, s * rng.uniform(bot, top)))
        pts[0] = (pts[0][0], s * top)
        pts[1] = (pts[1][0], s * bot)
    pts = pts[:44]
    if len(pts) < 2:
        pts.append(G.sphere_point(rng))
    t = rng.random()
    chunk = None if t < 0.3 else (4.0 * ll if t < 0.6 else ll * rng.choice([4.0, 5.0, 7.0, 12.0, 30.0, 1.0, 2.5]))
    case = {'fam': fam, 'ra': [p[0] for p in pts], 'dec': [p[1] for p in pts], 'linklength': ll, 'chunksize': chunk}
    return limit_cost(case)


DTYPES = [('int64', 'int64'), ('int32', 'float64'), ('int64', 'int32'), ('float32', 'float32'), ('float32', 'float64'),
          ('float64', 'int64'), ('int16', 'int16')]


def dtype_case(rng):
    """whole-degree coordinates passed as integer / float32 / mixed arrays: the answer must be that of the same numbers"""
    ll = rng.choice([1.5, 2.5, 1.2, 3.5])
    ra0 = rng.randint(0, 200)
    dec0 = rng.randint(-60, 40)
    pts = set()
    for _ in range(rng.randint(1, 3)):
        x, y = ra0 + rng.randint(0, 30), dec0 + rng.randint(0, 20)
        for _ in range(rng.randint(3, 10)):
            pts.add((x, y))
            dx, dy = rng.choice([(1, 0), (0, 1), (2, 0), (0, 2), (1, 1), (3, 0), (0, -1), (-1, 0)])
            x, y = max(0, min(359, x + dx)), max(-80, min(80, y + dy))
    for _ in range(rng.randint(0, 4)):
        pts.add((rng.randint(0, 359), rng.randint(-80, 80)))
    pts = list(pts)
    rng.shuffle(pts)
    if len(pts) < 2:
        pts.append((pts[0][0] + 1, pts[0][1]))
    dra, ddec = rng.choice(DTYPES)
    t = rng.random()
    return {'fam': 'dtype', 'ra': [p[0] for p in pts], 'dec': [p[1] for p in pts], 'linklength': ll,
            'chunksize': None if t < 0.4 else rng.choice([4 * ll, 10.0, 25.0]), 'dtype': {'ra': dra, 'dec': ddec}}


def seam_straddle_case(rng, rep):
    """clusters and chains with members on BOTH sides of RA 0/360 (raw RA differences of almost 360 degrees between linked
    points), at any declination up to the polar caps, plus positions exactly at RA 0.0 and 360.0.  `rep` chooses how the same
    positions are written: 'norm' [0, 360), 'exact' (0.0 / 360.0 present), 'over' (some RA given as RA + 360 or + 720),
    'neg' (some RA given as RA - 360), 'neg-all' (all RA given as RA - 360 or - 720)"""
    ll = G.pick_L(rng, 1.0 / 3600.0, 5.0)
    t = rng.random()
    if t < 0.5:
        dec0 = rng.uniform(-70.0, 70.0)
    elif t < 0.8:
        dec0 = rng.choice([-1.0, 1.0]) * (90.0 - min(rng.uniform(0.3, 5.0) * ll, 30.0))
    else:
        dec0 = rng.choice([0.0, 0.0, 45.0, -60.0])
    cosd = max(math.cos(dec0 * D2R), 1e-3)
    pts = []
    for _ in range(rng.randint(1, 3)):          # clusters whose centre is within 1.5 L of the seam
        c_ra = G.norm_ra(rng.uniform(-1.5, 1.5) * ll / cosd)
        c_dec = max(-89.9, min(89.9, dec0 + rng.uniform(-3, 3) * ll))
        pts.append((c_ra, c_dec))
        for _ in range(rng.randint(2, 6)):
            pts.append(G.offset_point(c_ra, c_dec, ll * rng.uniform(0.0, 1.8), rng.uniform(0, 360)))
    if rng.random() < 0.6:                       # a chain that walks across the seam
        k = rng.randint(2, 6)
        s = (G.norm_ra(-k * 0.9 * ll / cosd + rng.uniform(-0.4, 0.4) * ll), max(-89.9, min(89.9, dec0 + rng.uniform(-4, 4) * ll)))
        pts += chain(rng, s, ll, rng.randint(k + 2, 2 * k + 4), 90.0, wobble=15.0)
    if rep == 'exact' or rng.random() < 0.25:    # positions exactly on the seam, written both ways, with neighbours
        d = max(-89.9, min(89.9, dec0 + rng.uniform(-2, 2) * ll))
        pts += [(0.0, d), (360.0, d + rng.choice([0.0, 0.4 * ll, 0.9 * ll, 1.3 * ll]))]
        pts.append((G.norm_ra(-rng.choice([0.5, 0.9, 1.2]) * ll / max(math.cos(d * D2R), 1e-3)), d))
        pts.append((G.norm_ra(rng.choice([0.5, 0.9, 1.2]) * ll / max(math.cos(d * D2R), 1e-3)), d))
    for _ in range(rng.randint(0, 3)):
        pts.append(G.sphere_point(rng))
    pts = pts[:40]
    if rep == 'over':
        pts = [(a + rng.choice([0.0, 360.0, 360.0, 720.0]) if a != 360.0 else a, d) for a, d in pts]
    elif rep == 'neg':
        pts = [(a - 360.0 if (a > 180.0 and rng.random() < 0.8) else a, d) for a, d in pts]
    elif rep == 'neg-all':
        pts = [(a - rng.choice([360.0, 360.0, 720.0]), d) for a, d in pts]
    rng.shuffle(pts)
    tt = rng.random()
    chunk = None if tt < 0.3 else (4.0 * ll if tt < 0.6 else ll * rng.choice([4.0, 5.0, 7.0, 12.0, 30.0, 2.5]))
    return limit_cost({'fam': 'seam-' + rep, 'ra': [p[0] for p in pts], 'dec': [p[1] for p in pts], 'linklength': ll, 'chunksize': chunk})


def polar_cap_case(rng):
    """points scattered over a polar cap (all right ascensions, a few linking lengths from the pole): linked pairs with raw
    RA differences anywhere between 0 and 360 degrees"""
    ll = G.pick_L(rng, 0.05, 5.0)
    s = rng.choice([-1.0, 1.0])
    pts = []
    for _ in range(rng.randint(4, 16)):
        pts.append((rng.random() * 360.0, s * (90.0 - ll * rng.uniform(0.05, 3.0))))
    if rng.random() < 0.3:
        pts.append((rng.choice([0.0, 360.0, 180.0]), s * (90.0 - ll * 0.3)))
    for _ in range(rng.randint(0, 3)):
        pts.append(G.sphere_point(rng))
    rng.shuffle(pts)
    return limit_cost({'fam': 'polar-cap', 'ra': [p[0] for p in pts], 'dec': [p[1] for p in pts], 'linklength': ll,
                       'chunksize': rng.choice([None, 4 * ll, 8 * ll, 20 * ll])})


def edge_lattice_case(rng):
    """mostly isolated positions on a lattice whose spacing IS the chunk size: every point sits on (or within rounding of) a
    declination slice boundary and close to RA cell edges, so it is entered in 4 (up to 6) cells and the number of provisional
    groups per point is as large as it gets; some lattice points have a partner 0.5-0.95 linking lengths away across the edge"""
    ll = rng.choice([0.025, 0.05, 0.25, 0.5, 1.0])
    cs = 4.0 * ll
    w, h = rng.randint(2, 6), rng.randint(2, 6)
    ra0 = rng.choice([rng.uniform(5.0, 340.0), 360.0 - rng.randint(0, w) * cs, 0.0])
    dec0 = rng.choice([0.0, -0.5 * h * cs, rng.uniform(-40.0, 40.0)])
    k = rng.choice([1, 1, 2])
    # a declination range just below a whole number of chunks puts every row on (within rounding of) a slice boundary
    shrink = rng.choice([1.0 - 1e-7, 1.0 - 1e-7, 1.0 - 1e-3, 1.0])
    pts = []
    for i in range(w):
        for j in range(h):
            p = (G.norm_ra(ra0 + i * k * cs), dec0 + j * k * cs * shrink)
            pts.append(p)
            if rng.random() < 0.25:
                pts.append(G.offset_point(p[0], p[1], ll * rng.choice([0.5, 0.9, 0.95]), rng.choice([0.0, 90.0, 180.0, 270.0, 45.0, 225.0])))
    pts = [p for p in pts if abs(p[1]) < 89.0][:44]
    rng.shuffle(pts)
    return {'fam': 'edge-lattice', 'ra': [p[0] for p in pts], 'dec': [p[1] for p in pts], 'linklength': ll,
            'chunksize': rng.choice([cs, cs, None, 2 * cs])}


def pole_exact_case(rng):
    """positions exactly at a pole (dec = +-90.0) together with neighbours inside and outside the linking length"""
    ll = rng.choice([0.5, 1.0, 2.0, 5.0])
    s = rng.choice([1.0, 1.0, -1.0])
    pts = [(rng.random() * 360.0, s * 90.0)]
    if rng.random() < 0.4:
        pts.append((rng.random() * 360.0, s * 90.0))
    for _ in range(rng.randint(1, 5)):
        pts.append((rng.random() * 360.0, s * (90.0 - ll * rng.choice([0.3, 0.6, 0.9, 1.2, 2.5]))))
    for _ in range(rng.randint(0, 4)):
        pts.append(G.sphere_point(rng))
    rng.shuffle(pts)
    return {'fam': 'pole-exact', 'ra': [p[0] for p in pts], 'dec': [p[1] for p in pts], 'linklength': ll,
            'chunksize': rng.choice([None, 4 * ll, 8 * ll])}


def G_sep(a, b):
    d1, d2 = a[1] * D2R, b[1] * D2R
    x = math.sin((d2 - d1) / 2) ** 2 + math.cos(d1) * math.cos(d2) * math.sin((b[0] - a[0]) * D2R / 2) ** 2
    return 2 * math.asin(min(1.0, math.sqrt(x))) / D2R


def G_bearing(a, b):
    d1, d2 = a[1] * D2R, b[1] * D2R
    dl = (b[0] - a[0]) * D2R
    y = math.sin(dl) * math.cos(d2)
    x = math.cos(d1) * math.sin(d2) - math.sin(d1) * math.cos(d2) * math.cos(dl)
    return math.atan2(y, x) / D2R


def limit_cost(case, max_cells=30000.0):
    cs = case['chunksize']
    eff = max(4.0 * case['linklength'], 0.1) if cs is None else max(cs, 4.0 * case['linklength'])
    drange = max(case['dec']) - min(case['dec'])

    def cells(c):
        return (3 + drange / c) * (3 + 360.0 / c)
    if cells(eff) > max_cells:
        while cells(eff) > max_cells:
            eff *= 1.3
        case['chunksize'] = eff
    return case


def convex_variant(rng, case, res):
    """pairs at equal declination on the poleward edge of a slice, one each side of an RA cell edge, linklength(1-eps) apart"""
    rec = res.get('rec')
    if not rec or 'ok' not in res:
        return None
    L = case['linklength']
    ra, dec = list(case['ra']), list(case['dec'])
    dlo, dhi = min(dec), max(dec)
    cur = [math.fmod(r + rec['raOffset'], 360.0) for r in ra]
    rlo, rhi = min(cur), max(cur)
    cands = []
    for i in range(rec['nDec']):
        lo, hi = rec['decBounds'][i], rec['decBounds'][i + 1]
        de = hi if abs(hi) > abs(lo) else lo
        if abs(de) >= 90.0 or abs(de) < 30.0 or rec['nRa'][i] < 2:
            continue
        inward = -1.0 if de == hi else 1.0
        d = de + inward * 1e-7 * max(1.0, abs(hi - lo))
        if not (dlo <= d <= dhi):
            continue
        for e in rec['raBounds'][i][1:-1]:
            if rlo < e < rhi:
                cands.append((d, e))
    if not cands:
        return None
    added = 0
    for _ in range(rng.randint(1, 3)):
        d, e = rng.choice(cands)
        eps = rng.choice([1e-5, 1e-4, 1e-3, 1e-2])
        x = math.sin(L * (1 - eps) * D2R / 2.0) / math.cos(d * D2R)
        if x >= 1.0:
            continue
        dra = 2.0 * math.asin(x) / D2R
        tiny = 1e-9 * dra
        side = rng.choice([-1.0, 1.0])
        a = e - side * tiny
        b = e + side * (dra - tiny)
        if not (rlo <= a <= rhi and rlo <= b <= rhi):
            continue
        ra += [G.norm_ra(a - rec['raOffset']), G.norm_ra(b - rec['raOffset'])]
        dec += [d, d]
        added += 1
    if not added:
        return None
    c = dict(case)
    c.update({'ra': ra[-46:], 'dec': dec[-46:], 'fam': 'convex'})
    return c


# --------------------------------------------------------------------------- deep-merge families (screened in volume)

TREE_PARAMS = {'spacing': (0.75, 0.95), 'npts': (50, 64), 'tipbias': [0.8, 0.85, 0.9, 0.95]}   # tuned on hit rates, see notes/C05.md


def lattice_tree(rng):
    """a tree-like component grown on a lattice of spacing < linklength (only axis neighbours link), winding through many
    chunks of the enforced minimum size 4*linklength: the same component enters many cells as separate fragments, so the
    mapGroups chains get deep (merges of already-merged roots, labels two or more levels below their root)"""
    ll = rng.choice([0.25, 0.25, 0.1, 0.5])
    cs = 4 * ll
    s = ll * rng.uniform(*TREE_PARAMS['spacing'])
    occ = {(0, 0)}
    order = [(0, 0)]
    npts = rng.randint(*TREE_PARAMS['npts'])
    tries = 0
    tipbias = rng.choice(TREE_PARAMS['tipbias'])
    while len(order) < npts and tries < 5000:
        tries += 1
        base = order[-1] if rng.random() < tipbias else rng.choice(order)
        d = rng.choice([(0, 1), (1, 0), (0, -1), (-1, 0)])
        t = (base[0] + d[0], base[1] + d[1])
        if t in occ:
            continue
        if sum(((t[0] + e[0], t[1] + e[1]) in occ) for e in [(0, 1), (1, 0), (0, -1), (-1, 0)]) != 1:
            continue
        occ.add(t)
        order.append(t)
    ra0 = rng.uniform(20, 340)
    dec0 = rng.uniform(-30, 30)
    ox, oy = rng.uniform(0, cs), rng.uniform(0, cs)
    c = math.cos(dec0 * D2R)
    ra = [ra0 + (p[0] * s + ox) / c for p in order]
    dec = [dec0 + p[1] * s + oy for p in order]
    idx = list(range(len(ra)))
    if rng.random() < 0.6:
        rng.shuffle(idx)
    return {'fam': 'lattice-tree', 'ra': [G.norm_ra(ra[i]) for i in idx], 'dec': [dec[i] for i in idx], 'linklength': ll,
            'chunksize': rng.choice([cs, cs, None])}


def corner_lattice(rng, k=7):
    """linked pairs placed over a k x k lattice of positions covering one chunk (chunk size = the enforced minimum), with two
    far anchors that keep the chunk grid fixed during the sweep: some placements put the two points into diagonally adjacent
    chunks whose two side chunks hold no point of their own"""
    ll = rng.choice([0.1, 0.25, 0.5, 1.0])
    cs = 4.0 * ll
    ra0 = rng.uniform(30, 300)
    dec0 = rng.uniform(-50, 50)
    cosd = math.cos(dec0 * D2R)
    bearing = rng.choice([45.0, 135.0, 225.0, 315.0]) + rng.uniform(-12, 12)
    eps = rng.choice([1e-3, 1e-2, 1e-1, 0.3])
    anchors = [(G.norm_ra(ra0 - 5.3 * cs / cosd), dec0 - 5.2 * cs), (G.norm_ra(ra0 + 6.1 * cs / cosd), dec0 + 5.7 * cs)]
    extra = []
    if rng.random() < 0.4:          # a second pair elsewhere, not linked to the first
        e = (G.norm_ra(ra0 + 3.3 * cs / cosd), dec0 - 2.9 * cs)
        extra = [e, G.offset_point(e[0], e[1], ll * 0.8, rng.uniform(0, 360))]
    chunk = rng.choice([cs, cs, None])
    out = []
    for i in range(k):
        for j in range(k):
            a = (G.norm_ra(ra0 + (i + 0.37) / k * cs / cosd), dec0 + (j + 0.61) / k * cs)
            b = G.offset_point(a[0], a[1], ll * (1 - eps), bearing)
            pts = [a, b] + anchors + extra
            idx = list(range(len(pts)))
            rng.shuffle(idx)
            out.append({'fam': 'corner-lattice', 'ra': [pts[t][0] for t in idx], 'dec': [pts[t][1] for t in idx], 'linklength': ll,
                        'chunksize': chunk})
    return out


def lattice_loop(rng):
    """closed rings and U shapes on a lattice of spacing < linklength, spanning several chunk rows and columns"""
    ll = rng.choice([0.25, 0.25, 0.1, 0.5])
    cs = 4 * ll
    s = ll * rng.uniform(0.75, 0.95)
    w, h = rng.randint(3, 14), rng.randint(3, 14)
    ring = [(x, 0) for x in range(w)] + [(w - 1, y) for y in range(1, h)] + [(x, h - 1) for x in range(w - 2, -1, -1)] + \
           [(0, y) for y in range(h - 2, 0, -1)]
    shape = rng.choice(['ring', 'U', 'C', 'n'])
    if shape == 'n':
        ring = [p for p in ring if not (p[1] == 0 and 0 < p[0] < w - 1)]
    elif shape == 'U':
        ring = [p for p in ring if not (p[1] == h - 1 and 0 < p[0] < w - 1)]
    elif shape == 'C':
        ring = [p for p in ring if not (p[0] == w - 1 and 0 < p[1] < h - 1)]
    ring = ring[:60]
    ra0 = rng.uniform(20, 340)
    dec0 = rng.uniform(-40, 40)
    ox, oy = rng.uniform(0, cs), rng.uniform(0, cs)
    c = math.cos(dec0 * D2R)
    pts = [(G.norm_ra(ra0 + (p[0] * s + ox) / c), dec0 + p[1] * s + oy) for p in ring]
    rng.shuffle(pts)
    return {'fam': 'lattice-loop', 'ra': [p[0] for p in pts], 'dec': [p[1] for p in pts], 'linklength': ll,
            'chunksize': rng.choice([cs, cs, None])}


def multi_field(rng):
    """a Lambda / n / ring / U shaped component whose arms are first met as separate groups spanning several chunks and are
    joined in a later chunk, TOGETHER WITH several unrelated small groups scattered between and around the arms, so that the
    provisional numbers of real groups interleave with numbers that are merged away"""
    ll = rng.choice([0.25, 0.25, 0.1, 0.5])
    cs = 4 * ll
    s = ll * rng.uniform(0.75, 0.95)
    w, h = rng.randint(5, 15), rng.randint(6, 16)
    shape = rng.choice(['n', 'lambda', 'ring', 'U', 'lambda', 'n'])
    if shape == 'lambda':
        apex = (w // 2, h - 1)
        occ = []
        for side in (0, w - 1):
            x, y = side, 0
            while (x, y) != apex:
                occ.append((x, y))
                if y < apex[1] and (abs(x - apex[0]) * (apex[1]) <= abs(side - apex[0]) * (apex[1] - y) or x == apex[0]):
                    y += 1
                else:
                    x += 1 if x < apex[0] else -1
        occ.append(apex)
        if w - 1 - 0 < 3:
            return None
    else:
        occ = [(x, 0) for x in range(w)] + [(w - 1, y) for y in range(1, h)] + [(x, h - 1) for x in range(w - 2, -1, -1)] + \
              [(0, y) for y in range(h - 2, 0, -1)]
        if shape == 'n':
            occ = [p for p in occ if not (p[1] == 0 and 0 < p[0] < w - 1)]
        elif shape == 'U':
            occ = [p for p in occ if not (p[1] == h - 1 and 0 < p[0] < w - 1)]
    occ = list(dict.fromkeys(occ))[:48]
    occset = set(occ)

    def free(p):
        return all((p[0] + dx, p[1] + dy) not in occset for dx in (-1, 0, 1) for dy in (-1, 0, 1))
    others = []
    for _ in range(rng.randint(2, 8)):
        for _t in range(30):
            p = (rng.randint(-4, w + 3), rng.randint(-4, h + 3))
            if free(p):
                grp = [p]
                if rng.random() < 0.5:
                    q = (p[0] + rng.choice([1, 0]), p[1] + 1)
                    if free(q) and q != p:
                        grp.append(q)
                for g in grp:
                    occset.add(g)
                others += grp
                break
    allp = occ + others
    if len(allp) > 62:
        allp = allp[:62]
    ra0 = rng.uniform(20, 340)
    dec0 = rng.uniform(-40, 40)
    ox, oy = rng.uniform(0, cs), rng.uniform(0, cs)
    c = math.cos(dec0 * D2R)
    pts = [(G.norm_ra(ra0 + (p[0] * s + ox) / c), dec0 + p[1] * s + oy) for p in allp]
    rng.shuffle(pts)
    return {'fam': 'multi-field', 'ra': [p[0] for p in pts], 'dec': [p[1] for p in pts], 'linklength': ll,
            'chunksize': rng.choice([cs, cs, None])}


NEAR_DELTAS = [1e-3, 1e-5, 1e-7, 1e-9]


def near_case(rng):
    """chains whose consecutive separations are linklength (1 + d), d = +-1e-3 ... +-1e-9, for linking lengths from
    milli-arcseconds to degrees (positions at small RA / Dec so that the doubles resolve the differences), with exact
    duplicates; which pairs are linked is decided by the implementation's own gcirc comparison on these doubles"""
    ll = rng.choice([1.0 / 3.6e6, 5.0 / 3.6e6, 1.0 / 3600.0, 1.0 / 60.0, 0.3, 2.0])
    pts = []
    for _ in range(rng.randint(1, 3)):
        p = (rng.uniform(0.1, 1.5), rng.uniform(-0.8, 0.8))
        pts.append(p)
        for _k in range(rng.randint(2, 6)):
            d = rng.choice([-1.0, 1.0]) * rng.choice(NEAR_DELTAS)
            if rng.random() < 0.6:
                p = (p[0], p[1] + ll * (1.0 + d))
            else:
                p = (p[0] + ll * (1.0 + d) / math.cos(p[1] * D2R), p[1])
            pts.append(p)
    if rng.random() < 0.5:
        pts.append(pts[rng.randrange(len(pts))])
    rng.shuffle(pts)
    return {'fam': 'near', 'ra': [G.norm_ra(p[0]) for p in pts], 'dec': [p[1] for p in pts], 'linklength': ll,
            'chunksize': rng.choice([None, None, max(4 * ll, 0.05), 0.5])}


# --------------------------------------------------------------------------- round 6 families

LAYOUTS = ['contig', 'strided', 'reversed', 'col2d', 'fortran-row', 'bigendian', 'readonly']


def layout_case(rng):
    """memory layout of the coordinate arrays (class B): every other element of a buffer, negative stride, a column of a 2-D
    table, a row of a Fortran-ordered table, big-endian, read-only -- the same numbers, so the same answer"""
    base = gen_base(rng, rng.choice(['chain-ra', 'chain-diag', 'clusters', 'joined', 'seam', 'seam-norm', 'dtype', 'polar-cap', 'edge-lattice']))
    c = dict(base)
    c['layout'] = {'ra': rng.choice(LAYOUTS), 'dec': rng.choice(LAYOUTS)}
    if c['layout']['ra'] == c['layout']['dec'] == 'contig':
        c['layout']['ra'] = rng.choice(LAYOUTS[1:])
    c['base_fam'] = base['fam']
    c['fam'] = 'layout'
    return c


def argtype_case(rng):
    """linklength / chunksize in other Python / NumPy types (class E): int, numpy float64 / float32 / int64 scalars, 0-d array,
    chunksize=None given explicitly"""
    kL = rng.choice(['int', 'float64', 'float32', '0-d-float', 'int64', 'float'])
    if kL in ('int', 'int64'):
        ll = float(rng.choice([1, 2, 3]))
    elif kL == 'float32':
        ll = rng.choice([0.5, 0.25, 2.0, 0.125, 1.5])
    else:
        ll = G.pick_L(rng, 0.01, 5.0)
    pts = []
    for _ in range(rng.randint(1, 3)):
        s = start_point(rng, ll, rng.choice(['any', 'seam']))
        pts += chain(rng, s, ll, rng.randint(3, 10), rng.choice([90.0, 0.0, 45.0, 270.0]))
    for _ in range(rng.randint(1, 3)):
        c0 = start_point(rng, ll, 'any')
        for _ in range(rng.randint(1, 6)):
            pts.append(G.offset_point(c0[0], c0[1], ll * rng.uniform(0.0, 2.5), rng.uniform(0, 360)))
    pts = pts[:44]
    rng.shuffle(pts)
    kc = rng.choice(['none', 'explicit-None', 'int', 'float64', 'float32', 'float', 'int64'])
    if kc in ('none', 'explicit-None'):
        chunk = None
    elif kc in ('int', 'int64'):
        chunk = float(math.ceil(4.0 * ll) + rng.choice([0, 1, 5]))
    elif kc == 'float32':
        chunk = 4.0 * ll * rng.choice([1.0, 2.0, 4.0]) if kL in ('int', 'int64', 'float32') else float(math.ceil(4.0 * ll) + rng.choice([0, 1, 5]))
    else:
        chunk = ll * rng.choice([4.0, 5.0, 7.0, 12.0, 30.0])
    at = {'linklength': kL}
    if kc != 'none':
        at['chunksize'] = kc
    case = limit_cost({'fam': 'argtype', 'ra': [p[0] for p in pts], 'dec': [p[1] for p in pts], 'linklength': ll, 'chunksize': chunk, 'argtypes': at})
    # limit_cost may have raised the chunk size: keep it a value the requested scalar type holds exactly
    if case['chunksize'] is not None and kc in ('int', 'int64'):
        case['chunksize'] = float(math.ceil(case['chunksize']))
    elif case['chunksize'] is not None and kc == 'float32':
        import struct
        case['chunksize'] = struct.unpack('f', struct.pack('f', case['chunksize']))[0]
    return case


def large_case(rng, thorough=False):
    """sizes beyond a one-byte counter (class D): more than 127 points in ONE group (a dense winding chain) or more than 127
    groups (isolated points and pairs), thorough: beyond 255"""
    ll = rng.choice([0.25, 0.5, 1.0])
    n = rng.randint(135, 150) if not thorough else rng.choice([140, 200, 270, 300])
    kind = rng.choice(['one-big-group', 'many-groups'])
    ra0, dec0 = rng.uniform(30, 330), rng.uniform(-40, 40)
    cosd = math.cos(dec0 * D2R)
    pts = []
    if kind == 'one-big-group':
        w = rng.randint(9, 14)
        s = ll * rng.uniform(0.75, 0.95)
        k = 0
        while len(pts) < n:
            row, col = divmod(k, w)
            if row % 2:
                col = w - 1 - col
            pts.append((G.norm_ra(ra0 + col * s / cosd), dec0 + row * s))
            k += 1
        for _ in range(rng.randint(0, 5)):
            pts.append(G.sphere_point(rng))
    else:
        w = 14
        s = ll * rng.uniform(2.2, 3.5)
        for k in range(n):
            row, col = divmod(k, w)
            p = (G.norm_ra(ra0 + col * s / cosd), dec0 + row * s)
            pts.append(p)
            if rng.random() < 0.12:
                pts.append(G.offset_point(p[0], p[1], ll * rng.choice([0.5, 0.9]), rng.uniform(0, 360)))
    rng.shuffle(pts)
    return limit_cost({'fam': 'large', 'ra': [p[0] for p in pts], 'dec': [p[1] for p in pts], 'linklength': ll,
                       'chunksize': rng.choice([None, 4 * ll, 8 * ll]), 'large_kind': kind})


def inplace_history(rng):
    """class A (round 6): the caller keeps its ra / dec buffers and refills them in place between calls (`ra[:] = ...`,
    `ra += d`): the very same array objects are passed again with other contents -- the same positions in another order,
    positions moved by a fraction of a chunk, another field of the same size -- with the SAME linking length and chunk size
    (what a cache could be keyed on) or with others.  Every call is judged on the contents the arrays then have"""
    def small(n=None):
        for _ in range(80):
            c = gen_base(rng, rng.choice(['chain-ra', 'chain-diag', 'clusters', 'joined', 'seam', 'seam-norm', 'polar-cap', 'edge-lattice']))
            if admissible(c) and len(c['ra']) >= 4 and not c.get('dtype'):
                m = n if n is not None else rng.randint(4, min(24, len(c['ra'])))
                if len(c['ra']) >= m:
                    return dict(c, ra=c['ra'][:m], dec=c['dec'][:m])
        return None
    first = small()
    if first is None:
        return None
    h = [first]
    for _ in range(rng.randint(1, 3)):
        prev = h[-1]
        n = len(prev['ra'])
        c = dict(prev)
        t = rng.random()
        if t < 0.4:
            idx = list(range(n))
            rng.shuffle(idx)
            c['ra'], c['dec'] = [prev['ra'][i] for i in idx], [prev['dec'][i] for i in idx]
            c['inplace_change'] = 'reordered'
        elif t < 0.6:
            cs = prev['chunksize'] if prev['chunksize'] is not None else max(4.0 * prev['linklength'], 0.1)
            d = rng.choice([0.3, 1.0, 2.5]) * cs * rng.choice([-1.0, 1.0])
            f = rng.choice([1.0, 1.0, 0.7, 1.4])       # (a stretch changes which pairs are linked)
            m0 = sum(prev['dec']) / n
            c['ra'] = [G.norm_ra(x + d) for x in prev['ra']]
            c['dec'] = [max(-89.9, min(89.9, m0 + (x - m0) * f + 0.4 * d)) for x in prev['dec']]
            c['inplace_change'] = 'moved'
        else:
            o = small(n)
            if o is None:
                continue
            c = dict(o)
            if rng.random() < 0.5:
                c['linklength'], c['chunksize'] = prev['linklength'], prev['chunksize']
            c['inplace_change'] = 'other-field'
        c['reuse'] = True
        h.append(limit_cost(c))
    for c in h:
        c['history_kind'] = 'same-array-objects-refilled-in-place'
    h = [c for c in h if admissible(c)]
    return h if len(h) >= 2 else None


def history_cases(rng):
    """several spheregroup calls made one after the other in ONE implementation process: lists of equal length grouped one
    after the other, the identical call repeated, lists of different lengths interleaved"""
    kind = rng.choice(['equal-length-lists', 'equal-length-lists', 'identical-call-repeated', 'mixed-lengths'])

    def small(n=None):
        for _ in range(60):
            c = gen_base(rng, rng.choice(['chain-ra', 'clusters', 'joined', 'seam', 'dtype', 'seam-neg', 'seam-over', 'polar-cap']))
            if admissible(c) and len(c['ra']) >= 3:
                m = n if n is not None else rng.randint(3, min(16, len(c['ra'])))
                if len(c['ra']) >= m:
                    c = dict(c, ra=c['ra'][:m], dec=c['dec'][:m])
                    return c
        return None
    first = small()
    if first is None:
        return None
    h = [first]
    for _ in range(rng.randint(2, 3)):
        if kind == 'identical-call-repeated':
            c = dict(h[0])
        elif kind == 'equal-length-lists':
            c = small(len(first['ra']))
        else:
            c = small()
        if c is not None:
            h.append(c)
    for c in h:
        c['history_kind'] = kind
    return h


def synthetic_case(rng, nmax=14):
    """arbitrary link (a forest plus a few extra edges, symmetric, reflexive) and arbitrary overlapping cell lists that
    satisfy pair_coverage (every edge inside some cell, every point in some cell), cells in random order"""
    n = rng.randint(4, nmax)
    adj = [1 << i for i in range(n)]
    edges = []
    for v in range(1, n):
        if rng.random() < 0.85:
            edges.append((rng.randrange(v), v))
    for _ in range(rng.randint(0, 2)):
        u, v = rng.sample(range(n), 2)
        edges.append((u, v))
    perm = list(range(n))
    rng.shuffle(perm)
    edges = [(perm[u], perm[v]) for u, v in edges]
    for u, v in edges:
        adj[u] |= 1 << v
        adj[v] |= 1 << u
    cells = []
    for u, v in edges:
        c = {u, v}
        for _ in range(rng.choice([0, 0, 0, 1, 2])):
            c.add(rng.randrange(n))
        c = list(c)
        rng.shuffle(c)
        cells.append(c)
    for v in range(n):
        if not any(v in c for c in cells):
            cells.append([v])
    rng.shuffle(cells)
    return {'fam': 'synthetic', 'n': n, 'adj': [str(x) for x in adj], 'cells': cells}


def exhaustive_edge_orders(rng, n):
    """bounded-exhaustive: a random tree on n points, one 2-point cell per edge, ALL (n-1)! processing orders"""
    import itertools
    perm = list(range(n))
    rng.shuffle(perm)
    edges = [(perm[rng.randrange(v)], perm[v]) for v in range(1, n)]
    adj = [1 << i for i in range(n)]
    for u, v in edges:
        adj[u] |= 1 << v
        adj[v] |= 1 << u
    out = []
    for order in itertools.permutations(range(len(edges))):
        out.append({'fam': 'synthetic-exhaustive', 'n': n, 'adj': [str(x) for x in adj],
                    'cells': [list(edges[k]) if (k + order[0]) % 2 else list(edges[k])[::-1] for k in order]})
    return out


def synthetic_covered(c):
    adj = [int(x) for x in c['adj']]
    n = c['n']
    for i in range(n):
        for j in range(n):
            if (adj[i] >> j) & 1 and not any(i in cl and j in cl for cl in c['cells']):
                return False
    return all(len(cl) == len(set(cl)) for cl in c['cells'])


def screen_batch(cases, timeout=1500):
    """uncertified screening in the implementation process: indices of cases whose ingroup differs from a brute-force labelling"""
    nb = min(C.NPROC, max(1, len(cases)))
    batches = [cases[i::nb] for i in range(nb)]
    outs = C.run_impl_parallel('c05_impl.py', [{'mode': 'screen', 'cases': b} for b in batches], timeout=timeout)
    sus = []
    for bi, o in enumerate(outs):
        sus += [bi + k * nb for k in o['suspicious']]
        if o.get('synthetic_driver_inapplicable'):
            SYN_INAPPLICABLE[0] = True
    return sorted(sus)


SYN_INAPPLICABLE = [False]     # set when the synthetic-cell driver's glue does not fit the code under test (changed signatures)


def run_synthetic(cases):
    if not cases:
        return []
    nb = min(C.NPROC, len(cases))
    batches = [cases[i::nb] for i in range(nb)]
    outs = C.run_impl_parallel('c05_impl.py', [{'mode': 'synthetic', 'cases': b} for b in batches], timeout=1500)
    results = [None] * len(cases)
    for bi, o in enumerate(outs):
        for k, r in enumerate(o['results']):
            results[bi + k * nb] = r
    return results


FAMILIES = ['chain-ra', 'chain-dec', 'chain-diag', 'seam', 'pole', 'joined', 'clusters', 'highdec', 'polebound', 'dtype', 'pole-exact', 'near',
            'seam-norm', 'seam-exact', 'seam-over', 'seam-neg', 'seam-neg-all', 'polar-cap', 'edge-lattice', 'layout', 'argtype']
FAM_COUNT = {'polebound': (4, 40), 'seam-norm': (6, 120), 'seam-exact': (5, 100), 'seam-over': (5, 100), 'seam-neg': (4, 80), 'seam-neg-all': (3, 60),
             'polar-cap': (6, 120), 'edge-lattice': (6, 120), 'layout': (5, 200), 'argtype': (4, 160)}

HEADER = '''From Coq Require Import ZArith List. Import ListNotations.
From PV Require Import C05.Model C05.Algo C05.Sky. Open Scope Z_scope.'''

BAND_REL = (1, 10 ** 9)        # band of C05/Sky.v around the linking length: relative 1e-9 ...
BAND_ABS = (1, 10 ** 13)       # ... plus 1e-13 rad (rounding noise of a double-precision evaluation at RA ~ 360 deg)


def ratlit(x):
    """exact rational (num, den) of the number the caller passes (a double, or an integer of an integer array)"""
    a, b = float(x).as_integer_ratio()
    return '(%s, %s)' % (C.zlit(a), C.zlit(b))


def sky_term(c, r):
    """input of the certified link relation: the coordinates as passed, the linking length, the band, and the
    implementation's own adjacency rows (used by Coq only to break ties inside the band)"""
    if c.get('dtype'):
        assert all(float(x) == int(x) for x in c['ra'] + c['dec']), 'typed cases use whole degrees'
    pts = C.coq_list(['(%s, %s)' % (ratlit(a), ratlit(d)) for a, d in zip(c['ra'], c['dec'])])
    return '(mksky %s %s (%s, %s) (%s, %s) %s)' % (pts, ratlit(c['linklength']), C.zlit(BAND_REL[0]), C.zlit(BAND_REL[1]),
                                                  C.zlit(BAND_ABS[0]), C.zlit(BAND_ABS[1]), C.coq_list(r['adj']))


def zl(l):
    return C.coq_list([C.zlit(x) for x in l])


def case_term(case, res):
    o = res['ok']
    fof = (res.get('rec') or {}).get('fof')
    if fof:
        f = '(Some (%s, %s, %s, %s))' % (zl(fof['inGroup']), zl(fof['firstGroup']), zl(fof['nextGroup']), C.zlit(fof['nGroups']))
    else:
        f = 'None'
    base = '(mkcase %s %s %s %s %s %s)' % (C.coq_list(res['adj']), zl(o[0]), zl(o[1]), zl(o[2]), zl(o[3]), f)
    rec = res.get('rec') or {}
    cells = ['(mkcell %s %s %s %s %s)' % (zl(c['list']), C.zlit(c['nGroups']), zl(c['inGroup']), zl(c['firstGroup']), zl(c['nextGroup']))
             for c in rec.get('cells', [])]
    if fof:
        f5 = '(Some (%s, %s, %s, %s, %s))' % (zl(fof['inGroup']), zl(fof['multGroup']), zl(fof['firstGroup']), zl(fof['nextGroup']), C.zlit(fof['nGroups']))
    else:
        f5 = 'None'
    inner = '(%s, ((%s : list cellrec), %s))' % (base, C.coq_list(cells), f5)
    if 'cells' in case:          # synthetic cells: the link relation is arbitrary by construction, no coordinates
        return inner
    return '(%s, %s)' % (sky_term(case, res), inner)


def base_term(case, res):
    """case without recorded internals, for Sky.run_sky_cases (certified link + oracle comparison only)"""
    o = res['ok']
    return '(%s, mkcase %s %s %s %s %s None)' % (sky_term(case, res), C.coq_list(res['adj']), zl(o[0]), zl(o[1]), zl(o[2]), zl(o[3]))


def run_histories(hists, timeout=1500):
    if not hists:
        return []
    nb = min(C.NPROC, len(hists))
    batches = [hists[i::nb] for i in range(nb)]
    outs = C.run_impl_parallel('c05_impl.py', [{'mode': 'history', 'histories': bt} for bt in batches], timeout=timeout)
    res = [None] * len(hists)
    for bi, o in enumerate(outs):
        for k, r in enumerate(o['histories']):
            res[bi + k * nb] = r
    return res


def check_histories(ctx):
    """multi-call histories inside one implementation process: the four arrays of every call, as the caller holds them after
    the LAST call of the history, must be (components, lists_of) of that call's own list; inputs must be unchanged"""
    rng = ctx.rng
    hists = [h for h in (history_cases(rng) for _ in range(ctx.n(12, 200))) if h and len(h) >= 2]
    hists += [h for h in (inplace_history(rng) for _ in range(ctx.n(10, 300))) if h and len(h) >= 2]
    hres = run_histories(hists)
    terms, where = [], []
    for hi, (h, rs) in enumerate(zip(hists, hres)):
        for ci, (c, r) in enumerate(zip(h, rs)):
            if not r.get('inputs_unchanged', True):
                ctx.violation('C05:history:inputs-modified', 'spheregroup modified a caller-owned coordinate array (call %d of a history)' % ci,
                              {'kind': 'failing-input', 'history': h, 'call_index': ci}, True)
            if 'ok' not in r:
                ctx.violation('C05:history:raise:%s' % r.get('err'),
                              'call %d of a %d-call history (%s) raised %s (%s)' % (ci, len(h), c.get('history_kind'), r.get('err'), r.get('msg', '')[:60]),
                              {'kind': 'failing-input', 'history': h, 'call_index': ci, 'impl_result': {k: v for k, v in r.items() if k != 'adj'}}, True)
                continue
            if r['nearest_threshold_rel'] is not None and r['nearest_threshold_rel'] <= thr_rel(c):
                continue
            terms.append(base_term(c, r))
            where.append((hi, ci))
    cc = C.CoqCases(ctx.work, HEADER, 'run_sky_cases', shard=max(4, len(terms) // (2 * C.NPROC) + 1))
    verdicts = cc.run(terms, tag='hist') if terms else []
    bad = 0
    seen = set()
    for (hi, ci), v in zip(where, verdicts):
        if v & 12 and 'C05:history:link' not in seen:
            seen.add('C05:history:link')
            c, r = hists[hi][ci], hres[hi][ci]
            ctx.violation('C05:link-certificate:undecided' if v & 8 else 'C05:link:separation-routine-contradicts-certified-separation',
                          'call %d of a history: %s' % (ci, 'some pair could not be certified either way' if v & 8 else
                                                        'the link decision of groups.sphereradec / gcirc contradicts the certified separation for pairs %s' % link_differences(c, r)[:3]),
                          {'kind': 'broken-correspondence', 'item': 'groups.sphereradec / goddard.astro.gcirc vs C05.Sky.sky_link', 'call': c, 'verdict': v}, False)
        if v & 3 == 0:
            continue
        bad += 1
        h, r = hists[hi], hres[hi][ci]
        overwritten = r.get('immediate') != r.get('ok')
        sig = 'C05:history:%s' % ('result-overwritten-by-later-call' if overwritten else (
            'stale-state-for-refilled-arrays' if r.get('reused') else 'result-depends-on-earlier-calls'))
        if sig in seen:
            continue
        seen.add(sig)
        ctx.violation(sig, 'call %d of a %d-call history (%s) in one process: the arrays the caller holds after the last call are not '
                           '(components, lists_of) of that call\'s list (%s)' % (
                               ci, len(h), h[ci].get('history_kind'),
                               'they were correct when returned and changed afterwards' if overwritten else 'already wrong when returned'),
                      {'kind': 'failing-input', 'history': h, 'call_index': ci, 'held_result': r.get('ok'), 'result_when_returned': r.get('immediate'),
                       'expected_ingroup_uncertified': py_components([int(x) for x in r.get('adj_indep', r['adj'])], len(h[ci]['ra'])), 'verdict': v,
                       'meaning': 'every call of the history is an admissible input on its own; the result of a call is what the caller holds: '
                                  'it is compared, in Coq, with C05.Model.spec_output of that call after the last call of the history'}, True)
    ctx.coverage['histories'] = {'histories': len(hists), 'calls_checked_in_coq': len(terms), 'rejected': bad,
                                 'calls_on_refilled_array_objects': sum(1 for rs in hres for r in rs if r.get('reused')),
                                 'kinds': sorted(set(h[0].get('history_kind') for h in hists))}


def link_differences(c, r):
    """pairs on which the implementation's own link bit differs from the independent one (for messages)"""
    a = [int(x) for x in r['adj']]
    b = [int(x) for x in r.get('adj_indep', r['adj'])]
    out = []
    for i in range(len(a)):
        for j in range(len(a)):
            if i != j and ((a[i] >> j) & 1) != ((b[i] >> j) & 1):
                out.append((i, j, bool((a[i] >> j) & 1), G_sep((c['ra'][i], c['dec'][i]), (c['ra'][j], c['dec'][j]))))
    return out


def py_components(adj, n):
    """uncertified re-computation, for messages only"""
    lab = [-1] * n
    g = 0
    for i in range(n):
        if lab[i] >= 0:
            continue
        stack = [i]
        lab[i] = g
        while stack:
            a = stack.pop()
            for b in range(n):
                if lab[b] < 0 and ((adj[a] >> b) & 1 or (adj[b] >> a) & 1):
                    lab[b] = g
                    stack.append(b)
        g += 1
    return lab


def thr_rel(c):
    """pairs closer than this (relative) to the linking length are not judged: single-precision coordinates or linking length"""
    return 1e-4 if (c.get('dtype') or 'float32' in (c.get('argtypes') or {}).values()) else 1e-9


def admissible(c):
    """two or more positions, |Dec| <= 90, RA any finite number of degrees written in [-720, 1080] (the conventional range is
    [0, 360); RA = 360.0, RA + 360 and RA - 360 are other ways of writing the same position and gcirc treats them so)"""
    return (len(c['ra']) >= 2 and all(-720.0 <= r <= 1080.0 for r in c['ra']) and all(abs(d) <= 90.0 for d in c['dec']))


def ra_class(c):
    if 'ra' not in c:
        return ''
    return ':negative-ra' if min(c['ra']) < 0.0 else ''



def run_batch(cases):
    nb = min(C.NPROC, max(1, len(cases)))
    batches = [cases[i::nb] for i in range(nb)]
    outs = C.run_impl_parallel('c05_impl.py', batches, timeout=1500)
    results = [None] * len(cases)
    for bi, o in enumerate(outs):
        for k, r in enumerate(o['results']):
            results[bi + k * nb] = r
    return results, outs[0]


def reorder(rng, c):
    idx = list(range(len(c['ra'])))
    rng.shuffle(idx)
    d = dict(c)
    d['ra'] = [c['ra'][i] for i in idx]
    d['dec'] = [c['dec'][i] for i in idx]
    return d


def chunk_class(c):
    if 'cells' in c:
        return 'synthetic-cells'
    cs = c['chunksize']
    if cs is None:
        return 'chunksize=default'
    return 'chunksize>=4L' if cs >= 4.0 * c['linklength'] else 'chunksize<4L(raised)'


def correspond(ctx, proof_ok=True):
    ok, log = C.coq_make(['C05/Model.vo', 'C05/Algo.vo'])
    if not ok:
        raise RuntimeError('C05/Model.v does not build:\n' + log[-2000:])
    rng = ctx.rng
    # development aid: VERIF_FAMILIES=layout,history restricts the run to the named families ('screen', 'synthetic', 'large',
    # 'convex', 'history' name the other phases); unset (the normal case) = everything
    import os
    only = set(x for x in os.environ.get('VERIF_FAMILIES', '').split(',') if x)
    want = lambda f: not only or f in only      # noqa: E731
    if only:
        ctx.coverage['families_restricted_to'] = sorted(only)
    bases = []
    for fam in FAMILIES:
        if not want(fam):
            continue
        for _ in range(ctx.n(*FAM_COUNT.get(fam, (9, 200)))):
            c = gen_base(rng, fam)
            if admissible(c):
                bases.append(c)
    r0, info = run_batch(bases)
    ctx.coverage['pydl_file'] = info['pydl_file']
    extra = []
    for c, r in zip(bases, r0):
        if len(extra) < ctx.n(10, 400) and want('convex'):
            e = convex_variant(rng, c, r)
            if e is not None and admissible(e):
                extra.append(e)
    # every input in 3 orders (the given one and two random ones)
    cases = []
    for c in bases + extra:
        cases.append(c)
        cases.append(reorder(rng, c))
        if c['fam'] not in ('layout', 'argtype') or ctx.thorough:      # (these two: 2 orders in the quick tier)
            cases.append(reorder(rng, c))
    # deep-merge families: screened in volume by an uncertified comparison inside the implementation process; every
    # suspicious case and a fixed-size sample go through the full recorded run and the Coq evaluation below
    scr = 1 if want('screen') else 0
    sky = [lattice_tree(rng) for _ in range(scr * ctx.n(6000, 200000))]
    n_tree = len(sky)
    sky += [lattice_loop(rng) for _ in range(scr * ctx.n(600, 30000))]
    n_loop = len(sky) - n_tree
    sky += [c for c in (multi_field(rng) for _ in range(scr * ctx.n(800, 60000))) if c is not None]
    n_multi = len(sky) - n_tree - n_loop
    for _ in range(scr * ctx.n(40, 1500)):          # 40 sweeps of 49 placements
        sky += corner_lattice(rng)
    sky = [c for c in sky if admissible(c)]
    sky_sus = screen_batch(sky)
    by_fam = {}
    for k in sky_sus:
        by_fam.setdefault(sky[k]['fam'], []).append(k)
    pick = [k for ks in by_fam.values() for k in ks[:6]] + list(range(0, n_tree, max(1, n_tree // ctx.n(8, 200)))) + \
        list(range(n_tree, len(sky), max(1, (len(sky) - n_tree) // ctx.n(12, 200))))
    cases += [sky[k] for k in sorted(set(pick))]
    # class D (round 6): more than 127 members in one group / more than 127 groups.  The certified evaluation of such a case costs about a
    # minute of Coq (the oracle `components` and the per-cell models are far from linear), so in the quick tier they are screened (all four
    # arrays against a brute-force labelling, uncertified) and only suspicious ones are evaluated in Coq; the thorough tier evaluates a few anyway
    big = [c for c in (large_case(rng, ctx.thorough) for _ in range(ctx.n(6, 40) if want('large') else 0)) if admissible(c)]
    big_sus = screen_batch(big) if big else []
    cases += [big[k] for k in sorted(set(big_sus[:2] + list(range(min(ctx.n(0, 3), len(big))))))]
    ctx.coverage['large_point_sets'] = {'screened': len(big), 'suspicious': len(big_sus), 'sizes': sorted(len(c['ra']) for c in big),
                                        'rule': 'screening compares ingroup, multgroup, firstgroup, nextgroup with a brute-force labelling in the implementation process'}
    syn = [synthetic_case(rng) for _ in range(ctx.n(5000, 200000) if want('synthetic') else 0)]
    for nn in ((4, 5, 6) if want('synthetic') else ()):
        syn += exhaustive_edge_orders(rng, nn)
    syn = [c for c in syn if synthetic_covered(c)]
    syn_sus = screen_batch(syn)
    pick = syn_sus[:8] + list(range(0, len(syn), max(1, len(syn) // ctx.n(40, 400))))
    syn_cases = [syn[k] for k in sorted(set(pick))]
    if SYN_INAPPLICABLE[0]:
        # the driver replaces chunks.assign / groups.sphereradec from outside; when their signatures changed it says nothing
        # about the code: rely on the end-to-end sky families above (not an alarm by itself)
        syn_cases = []
        ctx.notes.append('synthetic-cell driver not applicable to this source (TypeError in the driver glue); end-to-end families only')
    ctx.coverage['screened'] = {
        'rule': 'screening = real spheregroup call compared (uncertified, in the implementation process) with a brute-force labelling; '
                'suspicious cases and a sample are then evaluated like every other case (recorded internals, Coq)',
        'lattice_tree_cases': n_tree, 'lattice_loop_cases': n_loop, 'multi_field_cases': n_multi, 'corner_lattice_cases': len(sky) - n_tree - n_loop - n_multi,
        'sky_suspicious_by_family': {f: len(ks) for f, ks in by_fam.items()},
        'synthetic_driver_applicable': not SYN_INAPPLICABLE[0],
        'synthetic_cell_cases': len(syn), 'synthetic_suspicious': len(syn_sus),
        'synthetic_exhaustive_edge_orders': sum(1 for c in syn if c['fam'] == 'synthetic-exhaustive')}
    results, _ = run_batch(cases)
    cases += syn_cases
    results += run_synthetic(syn_cases)
    terms, idx = [], []
    dist = {}
    skipped = 0
    for n, (c, r) in enumerate(zip(cases, results)):
        key = '%s:%s:%s' % (c['fam'], chunk_class(c), 'ok' if 'ok' in r else r.get('err'))
        dist[key] = dist.get(key, 0) + 1
        if 'ok' not in r and 'cells' in c:
            ctx.violation('C05:synthetic-cells:raise:%s' % r.get('err'),
                          'the real groups/friendsoffriends/spheregroup-tail code, driven with synthetic cell lists satisfying pair_coverage, '
                          'raised %s (%s)' % (r.get('err'), r.get('msg', '')[:80]),
                          {'kind': 'broken-correspondence', 'item': 'chunks.friendsoffriends + groups + spheregroup tail vs C05_spheregroup_spec (synthetic cells)',
                           'synthetic_call': c, 'impl_result': {k: v for k, v in r.items() if k not in ('adj', 'rec')}}, False)
            continue
        if 'ok' not in r:
            msg = r.get('msg', '')
            cls = 'cosDecMin' if 'cosDecMin' in msg else (msg.split(' ')[0][:24] if msg else '')
            ctx.violation('C05:raise:%s:%s%s' % (r.get('err'), cls, ra_class(c)),
                          'spheregroup raised %s (%s) on an admissible input (family %s)' % (r.get('err'), msg[:80], c['fam']),
                          {'kind': 'failing-input', 'call': c, 'impl_result': {k: v for k, v in r.items() if k not in ('adj', 'rec')},
                           'meaning': 'the property promises a grouping for every list of two or more positions; the call raised instead'}, True)
            continue
        if c['fam'] != 'near' and r['nearest_threshold_rel'] is not None and r['nearest_threshold_rel'] <= thr_rel(c):
            skipped += 1
            continue
        terms.append(case_term(c, r))
        idx.append(n)
    # sky cases: certified link relation (C05/Sky.v) + everything of run_case2; synthetic-cell cases: run_case2 alone
    sky_pos = [k for k, n in enumerate(idx) if 'cells' not in cases[n]]
    syn_pos = [k for k, n in enumerate(idx) if 'cells' in cases[n]]
    verdicts = [None] * len(idx)
    cc = C.CoqCases(ctx.work, HEADER, 'run_sky_cases2', shard=max(2, len(sky_pos) // (4 * C.NPROC) + 1))
    for k, v in zip(sky_pos, cc.run([terms[k] for k in sky_pos], tag='sky')):
        verdicts[k] = v
    cc2 = C.CoqCases(ctx.work, HEADER, 'run_cases2', shard=max(3, len(syn_pos) // (2 * C.NPROC) + 1))
    for k, v in zip(syn_pos, cc2.run([terms[k] for k in syn_pos], tag='syn') if syn_pos else []):
        verdicts[k] = v
    ctx.coverage['coq_eval_s'] = round(cc.coq_seconds + cc2.coq_seconds, 1)
    multi = 0
    cross = 0
    asym = 0
    seamlinks = 0
    impl_link_differs = 0
    for n in idx:
        r = results[n]
        rows = [int(x) for x in r['adj']]
        if any(not (rows[a] >> a) & 1 for a in range(len(rows))) or \
                any(((rows[a] >> b) & 1) != ((rows[b] >> a) & 1) for a in range(len(rows)) for b in range(a)):
            asym += 1
        if max(r['ok'][1]) > 1:
            multi += 1
        cn = cases[n]
        if 'ra' in cn:
            ir = [int(x) for x in r.get('adj_indep', r['adj'])]
            if any((ir[a] >> b) & 1 and abs(cn['ra'][a] - cn['ra'][b]) > 180.0 for a in range(len(ir)) for b in range(a)):
                seamlinks += 1
            if any(x != y for x, y in zip(r.get('adj_indep', r['adj']), r['adj'])):
                impl_link_differs += 1
        rec = r.get('rec') or {}
        seen = {}
        for ci, cell in enumerate(rec.get('cells', [])):
            for p in cell['list']:
                seen.setdefault(r['ok'][0][p], set()).add(ci)
        if any(len(v) > 1 for v in seen.values()):
            cross += 1
    ctx.coverage.update({
        'evaluations': len(terms),
        'distinct_nontrivial': len(set(terms)),
        'rule': 'one evaluation = one spheregroup call whose four returned arrays are compared, inside Coq, for exact equality with '
                '(components, lists_of) of the link relation certified in Coq from the coordinates (independent of gcirc) and with the renumbering model run on the '
                'recorded friendsoffriends() result; every point set is run in 3 orders; raised calls are counted as violations, not evaluations',
        'cases_by_family_chunk_outcome': dist,
        'cases_with_a_group_of_2_or_more': multi,
        'cases_with_a_group_spanning_several_cells': cross,
        'cases_with_asymmetric_or_irreflexive_adjacency': asym,   # of the implementation's own gcirc bits (tie-break inside the band only)
        'cases_with_a_linked_pair_whose_raw_ra_difference_exceeds_180': seamlinks,
        'cases_where_gcirc_bits_differ_from_the_independent_link': impl_link_differs,
        'link_relation': 'certified in Coq from the coordinates (C05/Sky.v, theorem C05_sky_link_certified); band rel %g abs %g rad' % (
            BAND_REL[0] / BAND_REL[1], BAND_ABS[0] / BAND_ABS[1]),
        'skipped_near_threshold': skipped,
        'samples': [dict(cases[n], impl=results[n]['ok']) for n in idx[:3]] + [dict(cases[n], impl=results[n]['ok']) for n in idx[-1:]],
    })
    if want('history'):
        check_histories(ctx)
    seen = set()
    for n, v in zip(idx, verdicts):
        if v == 0:
            continue
        c, r = cases[n], results[n]
        nn = c['n'] if 'cells' in c else len(c['ra'])
        want = py_components([int(x) for x in r.get('adj_indep', r['adj'])], nn)
        if 'cells' not in c and v & 8:
            sig = 'C05:link-certificate:undecided'
            if sig not in seen:
                seen.add(sig)
                ctx.violation(sig, 'the interval evaluation of C05/Sky.v could not certify some pair either way (family %s): enclosures too wide or a malformed coordinate' % c['fam'],
                              {'kind': 'broken-correspondence', 'item': 'C05.Sky.sky_ok (checker of the certified link relation)', 'call': c, 'verdict': v}, False)
        if 'cells' not in c and v & 4:
            diff = link_differences(c, r)
            sig = 'C05:link:separation-routine-contradicts-certified-separation'
            if sig not in seen:
                seen.add(sig)
                ctx.violation(sig, 'the link decision of groups.sphereradec (gcirc(units=0) <= deg2rad(linklength) on the radians chunkfriendsoffriends builds) '
                                   'contradicts the separation certified in Coq from the coordinates, outside the rounding band, for %d pair(s), e.g. %s (family %s)' % (
                                       len(diff), diff[:1], c['fam']),
                              {'kind': 'failing-input' if v & 2 else 'broken-correspondence', 'item': 'groups.sphereradec / goddard.astro.gcirc vs C05.Sky.sky_link',
                               'call': c, 'pairs': diff[:10], 'verdict': v,
                               'meaning': 'pairs = (i, j, implementation links them, separation in degrees by an independent double-precision formula); '
                                          'the certified decision is C05_sky_link_certified'}, bool(v & 2))
            if not v & 3:
                continue
        v = v & 3
        if 'cells' in c:
            # synthetic cell lists: not an input of spheregroup(); a disagreement refutes the tie between the code after
            # chunk.assign and the model of theorem C05_spheregroup_spec (whose hypothesis pair_coverage holds by construction)
            sig = 'C05:synthetic-cells:%s' % ('output' if v & 2 else 'model-mismatch')
            if sig in seen:
                continue
            seen.add(sig)
            ctx.violation(sig, 'the real groups/friendsoffriends/spheregroup-tail code, driven with synthetic cell lists satisfying pair_coverage, '
                               '%s (%d points, %d cells)' % ('does not return (components, lists_of)' if v & 2 else
                                                             'is not reproduced by the Coq algorithmic models', nn, len(c['cells'])),
                          {'kind': 'broken-correspondence', 'item': 'chunks.friendsoffriends + groups + spheregroup tail vs C05_spheregroup_spec (synthetic cells)',
                           'synthetic_call': c, 'impl_result': r['ok'], 'expected_ingroup_uncertified': want, 'verdict': v,
                           'how': 'harness/impl/c05_impl.py synthetic(): point i at RA=i deg, groups.sphereradec replaced by a stub reading the '
                                  'adjacency rows, chunks.assign replaced by one installing the cell lists; everything else is the real code'}, False)
            continue
        if v & 2:
            got = r['ok'][0]
            same_partition = len(set(zip(want, got))) == len(set(want)) == len(set(got))
            what = 'partition' if not same_partition else ('numbering' if want != got else 'lists')
            sig = 'C05:%s%s%s:property' % (what, ':point-at-pole' if any(abs(d) == 90.0 for d in c['dec']) else '', ra_class(c))
            if sig in seen:
                continue
            seen.add(sig)
            ctx.violation(sig, 'spheregroup output differs from (components, lists_of) in its %s (family %s, linklength=%g, chunksize=%s, %d points%s)' % (
                what, c['fam'], c['linklength'], c['chunksize'], nn, ', dtypes %s' % c['dtype'] if c.get('dtype') else ''),
                {'kind': 'failing-input', 'call': c, 'impl_result': r['ok'], 'expected_ingroup_uncertified': want, 'verdict': v,
                 'rec': {k: x for k, x in (r.get('rec') or {}).items() if k in ('nRa', 'nDec', 'decBounds', 'raOffset', 'minSize')},
                 'meaning': 'verdict bit 2: the four arrays are not equal to C05.Model.spec_output (certified by C05_components_spec / C05_lists_spec); '
                            'bit 1: the renumbering model run on the recorded friendsoffriends result does not reproduce the output'}, True)
        else:
            sig = 'C05:model-mismatch:algorithmic-models'
            if sig in seen:
                continue
            seen.add(sig)
            ctx.violation(sig, 'a Coq algorithmic model (per-cell groups, mapGroups merge + friendsoffriends tail, or spheregroup tail) does not reproduce the recorded values (family %s); the output still equals the specification' % c['fam'],
                          {'kind': 'broken-correspondence', 'item': 'C05.Algo.groups_model / merge_model / fof_tail_model / C05.Model.renumber_model', 'call': c, 'impl_result': r['ok'],
                           'fof': (r.get('rec') or {}).get('fof'), 'verdict': v}, False)


def replay(ctx, rep):
    if rep.get('history'):
        h = rep['history']
        rs = C.run_impl('c05_impl.py', {'mode': 'history', 'histories': [h]})['histories'][0]
        for ci, (c, r) in enumerate(zip(h, rs)):
            print('call %d: %d points, linklength=%r chunksize=%r' % (ci, len(c['ra']), c['linklength'], c['chunksize']))
            print('   when returned  :', r.get('immediate', r.get('err')))
            print('   after last call:', r.get('ok'))
            print('   expected ingroup (uncertified):', py_components([int(x) for x in r.get('adj_indep', r['adj'])], len(c['ra'])))
        return 0
    c = rep.get('call')
    sc = rep.get('synthetic_call')
    if sc:
        out = C.run_impl('c05_impl.py', {'mode': 'synthetic', 'cases': [sc]})['results'][0]
        print('synthetic cells:', sc['cells'])
        print('adjacency rows :', sc['adj'])
        print('impl           :', out.get('ok', out.get('err')))
        print('expected ingroup (uncertified):', py_components([int(x) for x in sc['adj']], sc['n']))
        if 'ok' in out:
            cc = C.CoqCases(ctx.work, HEADER, 'run_cases2', shard=1)
            print('coq verdict (0 ok, +1 a model differs, +2 output is not (components, lists_of)):', cc.run([case_term(sc, out)]))
        return 0
    if not c:
        print('replay file has no call (kind=%s, item=%s)' % (rep.get('kind'), rep.get('item')))
        return 2
    out = C.run_impl('c05_impl.py', [c])['results'][0]
    print('call    : spheregroup(ra, dec, %r, chunksize=%r) with' % (c['linklength'], c['chunksize']))
    print('  ra  = %r' % c['ra'])
    print('  dec = %r' % c['dec'])
    if 'ok' not in out:
        print('impl    : raised %s: %s' % (out.get('err'), out.get('msg')))
        return 0
    print('impl    : ingroup   =', out['ok'][0])
    print('          multgroup =', out['ok'][1])
    print('          firstgroup=', out['ok'][2])
    print('          nextgroup =', out['ok'][3])
    print('expected ingroup (uncertified recomputation from an independent adjacency matrix):', py_components([int(x) for x in out.get('adj_indep', out['adj'])], len(c['ra'])))
    print('pairs on which the implementation\'s link bit differs from the independent one:', link_differences(c, out)[:10])
    cc = C.CoqCases(ctx.work, HEADER, 'run_sky_cases2', shard=1)
    print('coq verdict (0 ok, +1 a model differs, +2 output is not (components, lists_of) of the certified link relation, '
          '+4 implementation link bits differ from the certified ones, +8 a pair not certified):', cc.run([case_term(c, out)]))
    return 0
