(* C17: djs_median(width, boundary='reflect') on a 2-D array.  Padding the image with its reversed borders and
   corners, medfilt2d and cutting the middle out (M) is the median over the width x width box of the image
   reflected symmetrically in both directions (S). *)
From Coq Require Import ZArith List Bool Lia.
Import ListNotations.
From PV Require Import C17.Model C17.ProofsMedian.
Open Scope Z_scope.

Lemma pad_reflect_length : forall {A} pad (l : list A), (pad <= length l)%nat ->
  length (pad_reflect pad l) = (pad + (length l + pad))%nat.
Proof.
  intros A pad l H. unfold pad_reflect. rewrite !app_length, !rev_length, firstn_length, skipn_length. lia.
Qed.

Lemma pad_reflect_In : forall {A} pad (l : list A) x, In x (pad_reflect pad l) -> In x l.
Proof.
  intros A pad l x H. unfold pad_reflect in H. apply in_app_or in H as [H|H].
  - apply in_rev in H. rewrite <- (firstn_skipn pad l). apply in_or_app. left. exact H.
  - apply in_app_or in H as [H|H]; [exact H|]. apply in_rev in H.
    rewrite <- (firstn_skipn (length l - pad) l). apply in_or_app. right. exact H.
Qed.

(* the padded list holds the reflected samples (any element type) *)
Lemma pad_reflect_nth : forall {A} (d : A) (l : list A) pad j, (1 <= pad <= length l)%nat ->
  - Z.of_nat pad <= j < Z.of_nat (length l) + Z.of_nat pad ->
  nth (Z.to_nat (Z.of_nat pad + j)) (pad_reflect pad l) d = nth (Z.to_nat (reflect (Z.of_nat (length l)) j)) l d.
Proof.
  intros A d l pad j Hp Hj. unfold pad_reflect.
  rewrite reflect_single by lia.
  assert (L1 : length (rev (firstn pad l)) = pad) by (rewrite rev_length, firstn_length; lia).
  assert (L2 : length (rev (skipn (length l - pad) l)) = pad) by (rewrite rev_length, skipn_length; lia).
  destruct (j <? 0) eqn:E1.
  - apply Z.ltb_lt in E1. rewrite app_nth1 by lia.
    rewrite rev_nth by (rewrite firstn_length; lia). rewrite firstn_length.
    rewrite nth_firstn_lt by lia. f_equal. lia.
  - apply Z.ltb_ge in E1. rewrite app_nth2 by lia. rewrite L1. destruct (Z.of_nat (length l) <=? j) eqn:E2.
    + apply Z.leb_le in E2. rewrite app_nth2 by lia.
      rewrite rev_nth by (rewrite skipn_length; lia). rewrite skipn_length, nth_skipn_add. f_equal. lia.
    + apply Z.leb_gt in E2. rewrite app_nth1 by lia. f_equal. lia.
Qed.

Lemma flat_map_map : forall {A B C} (f : B -> list C) (g : A -> B) (l : list A),
  flat_map f (map g l) = flat_map (fun a => f (g a)) l.
Proof. induction l as [|a l IH]; cbn; [reflexivity | rewrite IH; reflexivity]. Qed.

Lemma flat_map_ext_in : forall {A B} (f g : A -> list B) (l : list A),
  (forall a, In a l -> f a = g a) -> flat_map f l = flat_map g l.
Proof.
  induction l as [|a l IH]; intros H; cbn; [reflexivity|].
  rewrite (H a (or_introl eq_refl)), IH; [reflexivity|]. intros a' Ha'. apply H. right. exact Ha'.
Qed.

Section TwoD.
  Variables (rows : list (list Z)) (nc pad : nat).
  Hypothesis Hrect : forall r, In r rows -> length r = nc.
  Hypothesis Hpr : (1 <= pad <= length rows)%nat.
  Hypothesis Hpc : (pad <= nc)%nat.
  Let big := map (pad_reflect pad) (pad_reflect pad rows).

  Lemma big_rows : length big = (pad + (length rows + pad))%nat.
  Proof. unfold big. rewrite map_length, pad_reflect_length by lia. reflexivity. Qed.

  Lemma big_cols : forall r, In r big -> length r = (pad + (nc + pad))%nat.
  Proof.
    intros r H. unfold big in H. apply in_map_iff in H as (r0 & <- & H0).
    apply pad_reflect_In in H0. rewrite pad_reflect_length; rewrite (Hrect r0 H0); lia.
  Qed.

  Lemma big2_nth : forall a b,
    - Z.of_nat pad <= a < Z.of_nat (length rows) + Z.of_nat pad ->
    - Z.of_nat pad <= b < Z.of_nat nc + Z.of_nat pad ->
    nthz2 big (Z.of_nat pad + a) (Z.of_nat pad + b) =
    nth (Z.to_nat (reflect (Z.of_nat nc) b)) (nth (Z.to_nat (reflect (Z.of_nat (length rows)) a)) rows []) 0.
  Proof.
    intros a b Ha Hb. unfold nthz2, nthz.
    replace (Z.of_nat pad + a <? 0) with false by (symmetry; apply Z.ltb_ge; lia).
    replace (Z.of_nat pad + b <? 0) with false by (symmetry; apply Z.ltb_ge; lia).
    unfold big.
    rewrite nth_indep with (d' := pad_reflect pad []) by (rewrite map_length, pad_reflect_length by lia; lia).
    rewrite map_nth, (pad_reflect_nth [] rows pad a Hpr Ha).
    set (r := nth (Z.to_nat (reflect (Z.of_nat (length rows)) a)) rows []).
    assert (Hr : In r rows).
    { apply nth_In. pose proof (reflect_range (Z.of_nat (length rows)) a ltac:(lia)). lia. }
    pose proof (Hrect r Hr) as Lr.
    rewrite <- Lr. apply pad_reflect_nth; rewrite Lr; lia.
  Qed.
End TwoD.

Theorem median_reflect2_model_eq_spec : forall rows (h : nat),
  (1 <= h)%nat -> (h + 1 <= length rows)%nat -> (h + 1 <= length (hd [] rows))%nat ->
  (forall r, In r rows -> length r = length (hd [] rows)) ->
  median_reflect2_model rows (2 * Z.of_nat h + 1) = M2Ok (median_reflect2_spec rows (2 * Z.of_nat h + 1)).
Proof.
  intros rows h Hh Hr Hc Hrect. unfold median_reflect2_model.
  set (w := 2 * Z.of_nat h + 1). set (nr := length rows). set (nc := length (hd [] rows)).
  replace (w =? 1) with false by (symmetry; apply Z.eqb_neq; lia).
  assert (Ew : (w + 1) / 2 = Z.of_nat h + 1) by (symmetry; apply Z.div_unique with (r := 0); lia).
  rewrite Ew. replace (Z.to_nat (Z.of_nat h + 1)) with (h + 1)%nat by lia.
  replace (nr <? h + 1)%nat with false by (symmetry; apply Nat.ltb_ge; lia).
  replace (nc <? h + 1)%nat with false by (symmetry; apply Nat.ltb_ge; lia). cbn [orb].
  assert (Ev : Z.even w = false) by (unfold w; replace (2 * Z.of_nat h + 1) with (1 + 2 * Z.of_nat h) by lia; rewrite Z.even_add_mul_2; reflexivity).
  assert (Ek : Z.min w (Z.of_nat nr * Z.of_nat nc) = w) by nia.
  rewrite Ek, Ev. f_equal.
  set (pad := (h + 1)%nat). set (big := map (pad_reflect pad) (pad_reflect pad rows)).
  assert (Hpr : (1 <= pad <= length rows)%nat) by (unfold pad; fold nr; lia).
  assert (Hpc : (pad <= nc)%nat) by (unfold pad; lia).
  assert (LB : length big = (pad + (nr + pad))%nat) by (apply (big_rows rows nc pad Hpr Hpc)).
  assert (LC : length (hd [] big) = (pad + (nc + pad))%nat).
  { apply (big_cols rows nc pad Hrect Hpr Hpc). fold big. clearbody big. destruct big as [|b0 bigr]; [cbn in LB; lia | cbn; left; reflexivity]. }
  unfold pydl_median2. rewrite LB, LC.
  rewrite (zrange_app pad), (zrange_app nr), !map_app.
  rewrite cut_middle by (rewrite map_length, zrange_len; reflexivity).
  rewrite map_map.
  unfold median_reflect2_spec. fold nr nc. rewrite !Nat2Z.id.
  replace (0 + Z.of_nat pad) with (Z.of_nat pad + 0) by lia. rewrite (zrange_shift (Z.of_nat pad) 0 nr), map_map.
  apply map_ext_in. intros a Ha. apply zrange_In in Ha.
  rewrite (zrange_app pad), (zrange_app nc), !map_app.
  rewrite cut_middle by (rewrite map_length, zrange_len; reflexivity).
  replace (0 + Z.of_nat pad) with (Z.of_nat pad + 0) by lia. rewrite (zrange_shift (Z.of_nat pad) 0 nc), map_map.
  apply map_ext_in. intros b Hb. apply zrange_In in Hb.
  assert (E1 : (w - 1) / 2 = Z.of_nat h) by (symmetry; apply Z.div_unique with (r := 0); lia).
  assert (E2 : Z.min w (Z.of_nat (pad + (nr + pad)) * Z.of_nat (pad + (nc + pad))) = w) by nia.
  assert (E3 : w / 2 = Z.of_nat h) by (symmetry; apply Z.div_unique with (r := 1); lia).
  rewrite E1, E2, E3, Ew.
  replace (Z.of_nat pad + a <? Z.of_nat h) with false by (symmetry; apply Z.ltb_ge; lia).
  replace (Z.of_nat (pad + (nr + pad)) - (Z.of_nat h + 1) <? Z.of_nat pad + a) with false by (symmetry; apply Z.ltb_ge; lia).
  replace (Z.of_nat pad + b <? Z.of_nat h) with false by (symmetry; apply Z.ltb_ge; lia).
  replace (Z.of_nat (pad + (nc + pad)) - (Z.of_nat h + 1) <? Z.of_nat pad + b) with false by (symmetry; apply Z.ltb_ge; lia).
  cbn [orb]. f_equal.
  replace (Z.of_nat pad + a - Z.of_nat h) with (Z.of_nat pad + (a - Z.of_nat h)) by lia.
  replace (Z.of_nat pad + b - Z.of_nat h) with (Z.of_nat pad + (b - Z.of_nat h)) by lia.
  rewrite (zrange_shift (Z.of_nat pad) (a - Z.of_nat h)), flat_map_map.
  apply flat_map_ext_in. intros a' Ha'. apply zrange_In in Ha'.
  rewrite (zrange_shift (Z.of_nat pad) (b - Z.of_nat h)), map_map.
  apply map_ext_in. intros b' Hb'. apply zrange_In in Hb'.
  apply (big2_nth rows nc pad Hrect Hpr Hpc); unfold pad; fold nr; lia.
Qed.

(* the total statement for rectangular images whose size is at least the width: M = S including ValueError *)
Theorem median_reflect2_model_total : forall rows w, 1 <= w ->
  w <= Z.of_nat (length rows) * Z.of_nat (length (hd [] rows)) ->
  (forall r, In r rows -> length r = length (hd [] rows)) ->
  median_reflect2_model rows w = median_reflect2_total_spec rows w.
Proof.
  intros rows w Hw Hsz Hrect. destruct (Z.eq_dec w 1) as [->|N1]; [reflexivity|].
  unfold median_reflect2_model, median_reflect2_total_spec.
  replace (w =? 1) with false by (symmetry; apply Z.eqb_neq; exact N1).
  rewrite (Z.min_l w _ Hsz).
  destruct ((length rows <? Z.to_nat ((w + 1) / 2))%nat || (length (hd [] rows) <? Z.to_nat ((w + 1) / 2))%nat) eqn:Es; [reflexivity|].
  destruct (Z.even w) eqn:Ev; [reflexivity|].
  apply orb_false_iff in Es as [Es1 Es2]. apply Nat.ltb_ge in Es1. apply Nat.ltb_ge in Es2.
  assert (Hodd : exists k, w = 2 * k + 1) by (rewrite <- Z.negb_odd in Ev; apply negb_false_iff in Ev; apply Z.odd_spec in Ev; exact Ev).
  destruct Hodd as [k Hk].
  set (h := Z.to_nat k). assert (Ewh : w = 2 * Z.of_nat h + 1) by (unfold h; lia).
  assert (Epad : Z.to_nat ((w + 1) / 2) = (h + 1)%nat).
  { rewrite Ewh. replace (2 * Z.of_nat h + 1 + 1) with ((Z.of_nat h + 1) * 2) by lia. rewrite Z.div_mul by lia. lia. }
  rewrite Epad in Es1, Es2.
  pose proof (median_reflect2_model_eq_spec rows h ltac:(unfold h; lia) Es1 Es2 Hrect) as M.
  unfold median_reflect2_model in M. rewrite <- Ewh in M.
  replace (w =? 1) with false in M by (symmetry; apply Z.eqb_neq; exact N1).
  rewrite Epad in M. rewrite (Z.min_l w _ Hsz), Ev in M.
  replace (length rows <? h + 1)%nat with false in M by (symmetry; apply Nat.ltb_ge; exact Es1).
  replace (length (hd [] rows) <? h + 1)%nat with false in M by (symmetry; apply Nat.ltb_ge; exact Es2).
  cbn [orb] in M. rewrite Epad. exact M.
Qed.
