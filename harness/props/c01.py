"""C01 -- yanny: tables and header pairs written to a file read back unchanged."""
import copy
import json
import math
import os
import re
import time

from harness import common as C
from harness.props import yanny_gen as G

ID = 'C01'
PROPS_V = 'C01/Props.v'
LEVEL = 'proof'
def translate(ctx):
    # regex literals, type-name tables and the quoting condition of yanny.py -> Generated/YannyLits.v
    # (compared with the literals the scanners were written for by C01_source_*_are_the_scanners)
    import os
    from translate import c01 as T
    text, info = T.generate(C.REPO)
    if text is not None:
        info['changed'] = C.write_if_changed(os.path.join(C.COQ, 'Generated', 'YannyLits.v'), text)
    else:
        info['restored_committed_file'] = C.restore_generated('coq/Generated/YannyLits.v')
        info['note'] = 'a regex of yanny.py is no longer a plain literal: committed Generated/YannyLits.v kept; the correspondence run alone ties scanners to code'
    # round 5: the decision logic of protect / dtype_to_struct / write / convert / default names -> Generated/YannyWriter.v
    # (C01/Bridge.v proves every generated piece equal to the writer model Yanny/Render.v: C01_generated_* theorems)
    wtext, winfo = T.generate_writer(C.REPO)
    if wtext is not None:
        winfo['changed'] = C.write_if_changed(os.path.join(C.COQ, 'Generated', 'YannyWriter.v'), wtext)
    else:
        winfo['restored_committed_file'] = C.restore_generated('coq/Generated/YannyWriter.v')
        winfo['note'] = ('the writer of yanny.py left the statement subset of the translator: committed Generated/YannyWriter.v kept; '
                         'the correspondence run alone ties the writer model to the code')
    return {'YannyLits': info, 'YannyWriter': winfo, 'recognised': bool(info.get('recognised') and winfo.get('recognised'))}


TRUSTED = [
    'hand-written models coq/Yanny/Render.v (dtype_to_struct + write) and coq/Yanny/Parse.v (_parse and helpers; every regex '
    'transliterated into a scanner) -- tied to the code by exact correspondence on every run: file bytes = render, '
    'parse(file bytes) = what the real reader returned',
    'numpy float text: str(np.float32/np.float64) is a bare token and float()/np.float32() read it back bit-identically '
    '(oracle hypotheses; validated on every run over random bit patterns and all special values); on the fragment NaN / +-inf / '
    'signed integer-valued (|x| < 1e6 in float32, <= 2**53 in float64) both are theorems about C01.FloatFrag.show_frag / parse_frag, '
    'which are tied to numpy / float() by the CFloatText cases of every run',
    'translate/c01.py generate_writer (statement translator of protect / dtype_to_struct / write / convert / default names -> '
    'Generated/YannyWriter.v) and coq/C01/PyRt.v (meaning of the Python string / list / dict operations it emits); the numpy dtype view '
    'dt[c].kind / subdtype / str / itemsize and decode() / str() of a cell are pinned to their exact source shape and otherwise exercised by '
    'the correspondence only',
    'numpy conversion of Python int/str lists into i2/i4/i8/S<n> record columns, astropy Table <-> record array conversion',
    'harness/props/yanny_gen.py (document generator, Coq literal builders), harness/impl/c01_impl.py (dumps of the real objects)',
    'Coq stdlib NArith/ZArith/List/Lia (theorems closed under the global context)',
]
ASSUMPTIONS = [
    'domain doc_ok (coq/Yanny/Render.v): ASCII printable + tab; no double quote; no leading "{"; no "}" in array elements; '
    'the last scalar column does not end in a backslash; table/column/enum names are identifiers; table names distinct '
    'after upper-casing; header keys are distinct identifiers different from every table name; at least one comment line',
    'additional exclusions beyond the statement (the format cannot express them either): header values with leading/trailing '
    'blanks, ending in a backslash or containing "{"; comments containing a backslash; any string, comment, column name, '
    'label or header key containing the word "typedef"; control characters other than tab; enum cells must be one of the '
    'labels; 2-D and zero-length subarrays',
    'float formatting/parsing is not modelled: the model carries float TEXT; bit-identity is checked on the real code',
]

HEADER = '''From Coq Require Import String.
From Coq Require Import NArith ZArith List. Import ListNotations.
From PV Require Import Yanny.Bytes Yanny.Types Yanny.Parse Yanny.Render C01.FloatFrag C01.Model. Open Scope N_scope.'''

UNSUPPORTED = ['u1', 'u2', 'u4', 'u8', 'i1', 'b1', 'f2', 'c8', 'c16', 'f16']


LAYOUTS = ['aligned', 'offsets', 'wide_view', 'reordered_view', 'strided_view', 'reversed_view', 'bigendian', 'recarray']
HDR_TYPED = [('int', 42), ('int', -7), ('int', 0), ('float', 2.5), ('float', -0.125), ('float', 1e+30), ('bool', True), ('bool', False),
             ('npint', 2 ** 40), ('npint32', -5), ('npfloat', 0.1), ('npfloat32', 1.5), ('npbool', True), ('npstr', 'numpy text')]


def typed_text(t, v):
    """str() of the Python object the implementation side builds for a typed header value (harness/impl/c01_impl.hdr_value)"""
    import numpy as np
    return str({'int': int, 'float': float, 'bool': bool, 'npint': np.int64, 'npint32': np.int32, 'npfloat': np.float64,
                'npfloat32': np.float32, 'npbool': np.bool_, 'npstr': np.str_}[t](v))


def decorate(rng, job):
    """Round 6 call-side variety; the document (what must be read back) stays what it is.
    B/G: memory layout of the record arrays handed to the writer (job['layouts'], see c01_impl.relayout);
    A:   the same array objects / header dictionary written once before with other content and edited in place ('reuse');
    E:   header values that are Python / numpy numbers and booleans instead of str ('hdr_py': expected text = str(value)),
         tables and names handed over as lists instead of tuples, overwrite=False / True given explicitly;
    G:   overwrite=True onto a file that holds OTHER tables and pairs ('over'): nothing of the old file may survive."""
    doc = job['doc']
    if rng.random() < 0.45:
        job['layouts'] = [rng.choice(LAYOUTS) if rng.random() < 0.8 else 'packed' for _ in doc['tables']]
    if rng.random() < 0.15:
        job['reuse'] = True
    if job['entry'] == 'ndarray' and rng.random() < 0.3:
        job['as_list'] = True
    if doc.get('hdr') and rng.random() < 0.3:
        job['hdr_py'] = {}
        for kv in doc['hdr']:
            if rng.random() < 0.6:
                t, v = rng.choice(HDR_TYPED)
                kv[1] = typed_text(t, v)
                job['hdr_py'][kv[0]] = {'py': t, 'v': v}
    if job['entry'] != 'ndarray':
        t = rng.random()
        if t < 0.3:
            od = G.gen_doc(rng, 'ndarray', ntables=rng.choice([1, 2]), allow_u=False, max_rows=3)
            if rng.random() < 0.5:          # the old file has a table of the SAME name with another layout
                od['tables'][0]['name'] = rng.choice([doc['tables'][0]['name'], doc['tables'][0]['name'].upper(), doc['tables'][0]['name'].lower()])
            names = set()
            od['tables'] = [x for x in od['tables'] if not (x['name'].upper() in names or names.add(x['name'].upper()))]
            od['hdr'] = [kv for kv in (od.get('hdr') or []) if kv[0].upper() not in names] + [['stale_keyword', 'left over']]
            job['over'] = od
            job['overwrite'] = True
        elif t < 0.4:
            job['overwrite'] = True         # nothing to replace
        elif t < 0.5:
            job['overwrite'] = False


def gen_jobs(ctx):
    rng = ctx.rng
    jobs = []
    n = ctx.n(420, 6000)
    for k in range(n):
        t = rng.random()
        entry = 'ndarray' if t < 0.62 else ('table_func' if t < 0.81 else 'table_write')
        doc = G.gen_doc(rng, entry)
        job = {'kind': 'write', 'id': 'd%05d' % k, 'entry': entry, 'doc': doc, 'tag': 'in-domain',
               'single': bool(len(doc['tables']) == 1 and rng.random() < 0.5)}
        decorate(rng, job)
        jobs.append(job)
    # fixed seam documents (always present, independent of the seed)
    fixed = [
        ('two tables, one name a prefix of the other',
         {'comments': ['c'], 'hdr': None, 'enums': None, 'tables': [
             {'name': 'FOO', 'cols': [{'name': 'x', 'code': 'i4', 'arr': None}], 'rows': [[1]]},
             {'name': 'FOOBAR', 'cols': [{'name': 'y', 'code': 'i2', 'arr': None}], 'rows': [[2]]}]}),
        ('table named like a column of another table',
         {'comments': ['c'], 'hdr': None, 'enums': None, 'tables': [
             {'name': 'FOO', 'cols': [{'name': 'y', 'code': 'i2', 'arr': None}], 'rows': [[1]]},
             {'name': 'BAR', 'cols': [{'name': 'foo', 'code': 'f8', 'arr': None}], 'rows': [[{'f': 0x3ff8000000000000}]]}]}),
        ('unicode column', {'comments': ['c'], 'hdr': [['k', 'v w']], 'enums': None, 'tables': [
            {'name': 't', 'cols': [{'name': 'a', 'code': 'i8', 'arr': None}, {'name': 's', 'code': 'U3', 'arr': None}],
             'rows': [[1, 'ab'], [2, 'cde']]}]}),
        ('empty double brace inside a string', {'comments': ['c'], 'hdr': None, 'enums': None, 'tables': [
            {'name': 'T', 'cols': [{'name': 's', 'code': 'S8', 'arr': None}], 'rows': [['a{{}}b'], ['x {{}} y']]}]}),
        ('zero rows', {'comments': ['c'], 'hdr': [['k', '']], 'enums': None, 'tables': [
            {'name': 'Z', 'cols': [{'name': 's', 'code': 'S4', 'arr': 2}, {'name': 'v', 'code': 'f4', 'arr': None}], 'rows': []}]}),
    ]
    for k, (tag, doc) in enumerate(fixed):
        jobs.append({'kind': 'write', 'id': 'f%05d' % k, 'entry': 'ndarray', 'doc': doc, 'tag': 'in-domain', 'note': tag})
    # unsupported scalar column types: must be refused
    for k, code in enumerate(UNSUPPORTED * ctx.n(1, 4)):
        doc = G.gen_doc(rng, 'ndarray', ntables=rng.choice([1, 2]), allow_u=False)
        t = rng.choice(doc['tables'])
        j = rng.randrange(len(t['cols']) + 1)
        t['cols'].insert(j, {'name': 'q_%s' % code, 'code': code, 'arr': rng.choice([None, None, 2])})
        for r in t['rows']:
            r.insert(j, 0 if t['cols'][j]['arr'] is None else [0, 0])
        jobs.append({'kind': 'write', 'id': 'u%05d' % k, 'entry': 'ndarray', 'doc': doc, 'tag': 'unsupported', 'code': code})
    # round 5: structnames=None -- the writer names the tables MYSTRUCT<k> itself (Generated gen_default_name)
    for k in range(ctx.n(10, 60)):
        doc = G.gen_doc(rng, 'ndarray')
        for i, t in enumerate(doc['tables']):
            t['name'] = 'MYSTRUCT%d' % i
        if doc.get('hdr'):
            doc['hdr'] = [kv for kv in doc['hdr'] if not kv[0].upper().startswith('MYSTRUCT')]
        job = {'kind': 'write', 'id': 'n%05d' % k, 'entry': 'ndarray', 'doc': doc, 'tag': 'in-domain', 'default_names': True,
               'single': bool(len(doc['tables']) == 1 and rng.random() < 0.5)}
        decorate(rng, job)
        jobs.append(job)
    # round 5: entry-point glue (refusals, overwrite, read_table_yanny errors, unsupported types through the Table route)
    jobs.append({'kind': 'glue', 'id': 'glue', 'tag': 'glue', 'doc': None, 'entry': None})
    # round 5: the float fragment (NaN, infinities, signed integer-valued): numpy's text and float() of it
    vals = []
    for code, nanpats, top in (('f4', [0x7fc00000, 0xffc00001, 0x7f800001, 0x7fffffff], 10 ** 6 - 1), ('f8', [0x7ff8000000000000, 0xfff8000000000001, 0x7ff0000000000001], 2 ** 53)):
        w = 4 if code == 'f4' else 8
        for b in nanpats:
            vals.append([code, b])
        for x in (float('inf'), float('-inf'), 0.0, -0.0, 1.0, -1.0, float(top), -float(top), float(top - 1)):
            vals.append([code, G.float_bits(x, w)])
        for _ in range(ctx.n(60, 600)):
            t = rng.random()
            n = rng.randint(0, 1000) if t < 0.3 else (rng.randint(0, top) if t < 0.8 else 10 ** rng.randint(0, 15 if code == 'f8' else 5))
            vals.append([code, G.float_bits(float(-n if rng.random() < 0.5 else n), w)])
    jobs.append({'kind': 'floattext', 'id': 'ftext', 'tag': 'floattext', 'values': vals, 'doc': None, 'entry': None})
    # round 6 (class D): one table beyond 2**15 rows (counter widths, block sizes), judged by the direct check alone
    nbig = 33000 + rng.randint(0, 2000)
    big = {'comments': ['big'], 'hdr': [['rows', str(nbig)]], 'enums': None, 'tables': [
        {'name': 'BIG', 'cols': [{'name': 'n', 'code': 'i4', 'arr': None}, {'name': 'h', 'code': 'i2', 'arr': None}, {'name': 's', 'code': 'S4', 'arr': None}],
         'rows': [[k * 65521 % 2000003 - 1000000, k % 65536 - 32768, 'r%d' % (k % 977)] for k in range(nbig)]}]}
    jobs.append({'kind': 'write', 'id': 'big00', 'entry': 'ndarray', 'doc': big, 'tag': 'large', 'single': True})
    # out-of-domain stream: only refusal / documented exclusion is recorded, never equality
    ood = [('double-quote', 'a"b', 'cell'), ('leading-brace', '{ab', 'cell'), ('rbrace-in-array-element', 'a}b', 'elt'),
           ('backslash-ends-last-column', 'ab\\', 'last'), ('hash-in-header', 'a # b', 'hdr'),
           ('newline-in-header', 'a\nb', 'hdr'), ('typedef-in-string', 'typedef x', 'cell'),
           ('blank-padded-header', ' a ', 'hdr')]
    for k, (tag, text, where) in enumerate(ood):
        doc = {'comments': ['c'], 'hdr': [['k', text if where == 'hdr' else 'v']], 'enums': None, 'tables': [
            {'name': 'OOD', 'cols': [{'name': 'n', 'code': 'i4', 'arr': None},
                                     {'name': 's', 'code': 'S12', 'arr': 2 if where == 'elt' else None}],
             'rows': [[1, ([text, 'z'] if where == 'elt' else (text if where in ('cell', 'last') else 'z'))], [2, ['p', 'q'] if where == 'elt' else 'y']]}]}
        jobs.append({'kind': 'write', 'id': 'o%05d' % k, 'entry': 'ndarray', 'doc': doc, 'tag': 'out-of-domain', 'note': tag})
    return jobs


def run_jobs(ctx, jobs, nb=12):
    nb = min(nb, max(1, len(jobs)))
    batches = [jobs[i::nb] for i in range(nb)]
    payloads = [{'workdir': os.path.join(ctx.work, 'files%d' % i),
                 'jobs': [{k: v for k, v in j.items() if k in ('kind', 'id', 'entry', 'doc', 'single', 'text_hex', 'default_names', 'values',
                                                           'layouts', 'reuse', 'as_list', 'hdr_py', 'over', 'overwrite')} for j in b]}
                for i, b in enumerate(batches)]
    outs = C.run_impl_parallel('c01_impl.py', payloads)
    results = [None] * len(jobs)
    for bi, o in enumerate(outs):
        for k, r in enumerate(o['results']):
            results[bi + k * nb] = r
    return results, outs[0]['pydl_file']


def py_outcome(doc, res, entry):
    """Direct behavioural check of the property on the real code: (outcome class, details)."""
    w = res['write']
    if res.get('caller_data_changed'):
        return 'caller-data-modified', [res['caller_data_changed']]
    if res.get('bystander_changed'):
        return 'another-live-object-changed', [res['bystander_changed']]
    if res.get('alias_changed'):
        return 'returned-object-aliases-caller-arrays', [res['alias_changed']]
    if 'exc' in (res.get('first_write') or {}):
        fw = res['first_write']
        return 'write-raised-%s' % fw['exc'], ['the first of two writes of the same arrays raised %s: %s (%s)' % (fw['exc'], fw['msg'], fw['where'])]
    if 'exc' in w:
        return 'write-raised-%s' % w['exc'], ['write raised %s: %s (%s); file %s' % (
            w['exc'], w['msg'], w['where'], 'left behind' if res.get('file_hex') is not None else 'not created')]
    if res.get('file_hex') is None:
        return 'no-file', ['writer returned without creating the file']
    exp = G.expected(doc)
    checks = [('reread', res.get('reread'))]
    if entry == 'ndarray':
        checks.append(('returned-object', w))
    for name, r in checks:
        if r is None:
            continue
        if 'exc' in r:
            return '%s-raised-%s' % (name, r['exc']), ['%s raised %s: %s (%s)' % (name, r['exc'], r['msg'], r['where'])]
        d = G.diff_tables(exp, r['ok'])
        if d:
            kind = 'types-differ' if any(' columns: ' in x for x in d) else ('pairs-differ' if any(x.startswith('pairs') for x in d) else 'cells-differ')
            return '%s-%s' % (name, kind), d
    for name in ('table_func', 'table_read'):
        r = res.get(name)
        if r is None:
            continue
        if 'exc' in r:
            return '%s-raised-%s' % (name, r['exc']), ['%s raised %s: %s' % (name, r['exc'], r['msg'])]
        tb = r['ok']
        te = exp['tables'][0]
        got = {'pairs': tb['meta'], 'tables': [{'name': te['name'], 'cols': [dict(c, type=e['type']) for c, e in zip(tb['cols'], te['cols'])]
                                                if len(tb['cols']) == len(te['cols']) else tb['cols'], 'rows': tb['rows']}]}
        d = G.diff_tables(exp, got)
        if d:
            kind = 'types-differ' if any(' columns: ' in x for x in d) else ('pairs-differ' if any(x.startswith('pairs') for x in d) else 'cells-differ')
            return '%s-%s' % (name, kind), d
    return 'ok', []


def case_term(job, res):
    doc = job['doc']
    if job['tag'] == 'unsupported':
        refused = 'exc' in res['write'] and res.get('file_hex') is None
        return '(CRefuse %s %s)' % (G.doc_term(doc), C.boollit(refused))
    exp = G.expected(doc)
    file_t = C.optlit(res.get('file_hex'), lambda h: G.blit(bytes.fromhex(h)))
    rr = res.get('reread')
    impl_t = 'None' if (rr is None or 'exc' in rr) else '(Some %s)' % G.pdoc_term(rr['ok'], exp)
    return '(CWrite %s %s %s)' % (G.doc_term(doc), file_t, impl_t)


def frag_of(code, bits):
    """A float (raw bits) as a term of the fragment C01.FloatFrag.ffrag, or None when it lies outside."""
    x = float(G.bits_to_float(code, bits))
    if x != x:
        return 'FNan'
    neg = C.boollit(math.copysign(1.0, x) < 0)
    if x in (float('inf'), float('-inf')):
        return '(FInf %s)' % neg
    if x == int(x) and abs(x) <= (10 ** 6 - 1 if code == 'f4' else 2 ** 53):   # numpy prints np.float32(1e6) as 1e+06
        return '(FNum %s %d)' % (neg, abs(int(x)))
    return None


def extra_terms(ctx, jobs, results):
    """Round 5 cases beyond one-document-one-case: default table names, float fragment texts."""
    ex = []
    for job, res in zip(jobs, results):
        if job.get('default_names') and 'ok' in res['write']:
            names = [t['name'] for t in res['write']['ok']['tables']]
            ex.append(('default-names', job, '(CDefaultNames %d%%nat %s)' % (len(job['doc']['tables']), C.coq_list([G.blit(n) for n in names]))))
        if job['tag'] == 'floattext':
            for (code, bits), r in zip(job['values'], res['values']):
                x = frag_of(code, bits)
                if x is None:
                    continue
                back = frag_of(code, r['back_bits'])
                ex.append(('float-fragment', {'code': code, 'bits': bits, 'impl': r},
                           '(CFloatText %s %s %s %s)' % ('TFloat' if code == 'f4' else 'TDouble', x, G.blit(r['text']),
                                                        'None' if back is None else '(Some %s)' % back)))
    return ex


def check_extras(ctx, extras, verdicts):
    n = {}
    seen = set()
    for (kind, job, term), v in zip(extras, verdicts):
        n[kind] = n.get(kind, 0) + 1
        if v == 0:
            continue
        if kind == 'default-names':
            sig = 'C01:model:default-names'
            if sig not in seen:
                seen.add(sig)
                ctx.violation(sig, 'structnames=None: the table names of the written object are not MYSTRUCT<k> as the generated '
                              'gen_default_name computes them', {'kind': 'broken-correspondence', 'item': 'Generated.YannyWriter.gen_default_name',
                                                                  'doc': job['doc'], 'coq_case': term[:400]}, False)
        else:
            if v & 2:
                sig = 'C01:float-fragment:text-does-not-read-back'
                if sig not in seen:
                    seen.add(sig)
                    ctx.violation(sig, 'a float of the fragment (%s bits %#x) is printed as %r, which float() does not read back as the value'
                                  % (job['code'], job['bits'], job['impl']['text']),
                                  {'kind': 'failing-input', 'value': job, 'coq_case': term}, True)
            else:
                sig = 'C01:model:float-fragment'
                if sig not in seen:
                    seen.add(sig)
                    ctx.violation(sig, 'C01.FloatFrag.show_frag / parse_frag differ from numpy / float() on %s bits %#x (text %r)'
                                  % (job['code'], job['bits'], job['impl']['text']),
                                  {'kind': 'broken-correspondence', 'item': 'C01.FloatFrag.show_frag / parse_frag', 'value': job, 'coq_case': term}, False)
    ctx.coverage['round5_extra_cases'] = n


GLUE_EXPECT = {
    'names_mismatch': lambda o, ex: o['exc'] == ex and not o['file'],
    'file_exists': lambda o, ex: o['exc'] == ex and o['same'],
    'table_exists': lambda o, ex: o['exc'] == ex and o['same'],
    'overwrite': lambda o, ex: o['exc'] is None and o.get('tables') == ['NEW'] and o.get('x') == [7, 8],
    'read_noname': lambda o, ex: o['exc'] == ex,
    'read_unknown': lambda o, ex: o['exc'] == 'KeyError',
    'read_lowercase': lambda o, ex: o['exc'] is None,
    # round 6 (class C): import and use in a fresh interpreter leave numpy / warnings / fits / environment settings alone
    'process_globals': lambda o, ex: o.get('import') == [] and o.get('use') == [],
}


def check_glue(ctx, jobs, results):
    for job, res in zip(jobs, results):
        if job['tag'] != 'glue':
            continue
        obs = res.get('obs', {})
        ex = obs.get('exception_class', 'PydlutilsException')
        bad = []
        for name, o in obs.items():
            if name == 'exception_class':
                continue
            if name.startswith(('table_unsupported_', 'tablewrite_unsupported_')):
                good = o['exc'] is not None and not o['file']
            else:
                good = GLUE_EXPECT[name](o, ex)
            if not good:
                bad.append((name, o))
        ctx.coverage['glue_checks'] = len(obs) - 1
        for name, o in bad:
            unsup = 'unsupported' in name
            ctx.violation('C01:glue:%s' % name, 'entry-point glue: %s behaves unexpectedly: %r' % (name, o),
                          {'kind': 'failing-input' if unsup else 'broken-correspondence', 'item': 'entry-point glue ' + name,
                           'check': name, 'observed': o,
                           'input': 'Table(np.zeros((1,), dtype=[("x","i4"),("q","%s")])) written with tablename U' % name.rsplit('_', 1)[-1] if unsup else name},
                          unsup)


OPTION_KEYS = ('layouts', 'reuse', 'as_list', 'hdr_py', 'over', 'overwrite')


def job_options(job):
    return {k: job[k] for k in OPTION_KEYS if k in job}


def shrink(ctx, job, outcome, deadline=None):
    """Greedy reduction of a failing document (same outcome class on the real code)."""
    doc = copy.deepcopy(job['doc'])
    entry = job['entry']
    for _round in range(12):
        if deadline is not None and time.time() > deadline:
            break
        cands = []
        if doc.get('hdr'):
            d = copy.deepcopy(doc); d['hdr'] = None; cands.append(d)
        if doc.get('enums') and not any(c['name'] in G.enum_map(doc) for t in doc['tables'] for c in t['cols']):
            d = copy.deepcopy(doc); d['enums'] = None; cands.append(d)
        for ti, t in enumerate(doc['tables']):
            if len(doc['tables']) > 1:
                d = copy.deepcopy(doc); del d['tables'][ti]; cands.append(d)
            if len(t['rows']) > 1:
                for half in (slice(0, len(t['rows']) // 2), slice(len(t['rows']) // 2, None)):
                    d = copy.deepcopy(doc); d['tables'][ti]['rows'] = t['rows'][half]; cands.append(d)
            elif len(t['rows']) == 1:
                d = copy.deepcopy(doc); d['tables'][ti]['rows'] = []; cands.append(d)
            if len(t['cols']) > 1:
                for ci in range(len(t['cols'])):
                    d = copy.deepcopy(doc)
                    del d['tables'][ti]['cols'][ci]
                    for r in d['tables'][ti]['rows']:
                        del r[ci]
                    lr = d['tables'][ti]['rows']
                    if all(not (isinstance(r[-1], str) and r[-1].endswith('\\')) for r in lr):
                        cands.append(d)
            for ci, c in enumerate(t['cols']):
                if c['arr'] is not None:
                    d = copy.deepcopy(doc)
                    d['tables'][ti]['cols'][ci]['arr'] = None
                    for r in d['tables'][ti]['rows']:
                        r[ci] = r[ci][0]
                    if all(not (isinstance(r[-1], str) and r[-1].endswith('\\')) for r in d['tables'][ti]['rows']):
                        cands.append(d)
        if not cands:
            break
        cj = [dict(job, kind='write', id='s%03d' % i, entry=entry, doc=d, tag='in-domain', single=False) for i, d in enumerate(cands)]
        rs, _ = run_jobs(ctx, cj, nb=8)
        nxt = None
        for d, r in zip(cands, rs):
            if py_outcome(d, r, entry)[0] == outcome:
                nxt = d
                break
        if nxt is None:
            break
        doc = nxt
    return doc


def correspond(ctx, proof_ok=True):
    ok, log = C.coq_make(['C01/Model.vo'])
    if not ok:
        raise RuntimeError('C01/Model.v does not build:\n' + log[-2000:])
    bad_oracle = G.oracle_check(ctx.rng, ctx.n(20000, 400000))
    if bad_oracle:
        ctx.violation('C01:oracle:float-text', 'numpy float text is not a lossless bare token: %r' % (bad_oracle[:3],),
                      {'kind': 'broken-correspondence', 'item': 'oracle hypotheses on str(np.float32/64)', 'examples': bad_oracle[:10]}, False)
    jobs = gen_jobs(ctx)
    results, pydl_file = run_jobs(ctx, jobs)
    ctx.coverage['pydl_file'] = pydl_file
    idx = [k for k, j in enumerate(jobs) if j['tag'] in ('in-domain', 'unsupported')]
    terms = [case_term(jobs[k], results[k]) for k in idx]
    extras = extra_terms(ctx, jobs, results)
    cc = C.CoqCases(ctx.work, HEADER, 'run_cases', shard=ctx.n(18, 40))
    allv = cc.run(terms + [t for _k, _j, t in extras])
    verdicts = dict(zip(idx, allv[:len(terms)]))
    ctx.coverage['coq_eval_s'] = round(cc.coq_seconds, 1)
    check_extras(ctx, extras, allv[len(terms):])
    check_glue(ctx, jobs, results)

    dist = {}
    feats = {}
    ood = {}
    seen = set()
    failing = {}      # group key -> list of (size, k, out, det, v)
    for k, (job, res) in enumerate(zip(jobs, results)):
        doc = job['doc']
        tag = job['tag']
        if tag in ('glue', 'floattext'):
            continue
        if tag == 'large':
            out, det = py_outcome(doc, res, job['entry'])
            ctx.coverage['large_table'] = {'rows': len(doc['tables'][0]['rows']), 'outcome': out}
            if out != 'ok':
                ctx.violation('C01:roundtrip-large:%s' % out, 'a table of %d rows does not read back unchanged (%s): %s'
                              % (len(doc['tables'][0]['rows']), out, '; '.join(det)[:300]),
                              {'kind': 'failing-input', 'entry': job['entry'], 'outcome': out, 'details': det[:5],
                               'doc': dict(doc, tables=[dict(doc['tables'][0], rows='[[k * 65521 %% 2000003 - 1000000, k %% 65536 - 32768, "r%%d" %% (k %% 977)] for k in range(%d)]' % len(doc['tables'][0]['rows']))])}, True)
            continue
        if tag == 'out-of-domain':
            out, det = py_outcome(doc, res, job['entry'])
            ood[job['note']] = 'round trip holds anyway' if out == 'ok' else out
            continue
        v = verdicts[k]
        if tag == 'unsupported':
            key = 'unsupported:%s' % ('refused' if 'exc' in res['write'] else 'WRITTEN')
            dist[key] = dist.get(key, 0) + 1
            if v & 2:
                sig = 'C01:unsupported:%s:written' % job['code']
                if sig not in seen:
                    seen.add(sig)
                    ctx.violation(sig, 'unsupported column type %s was not refused' % job['code'],
                                  {'kind': 'failing-input', 'job': job, 'impl': res, 'verdict': v}, True)
            elif v & 1:
                sig = 'C01:model:unsupported'
                if sig not in seen:
                    seen.add(sig)
                    ctx.violation(sig, 'writer model and implementation disagree on refusing %s' % job['code'],
                                  {'kind': 'broken-correspondence', 'item': 'Yanny.Render.render_checked (dtmap)', 'job': job, 'impl': res}, False)
            continue
        out, det = py_outcome(doc, res, job['entry'])
        fs = G.features(doc)
        key = '%s:%s' % (job['entry'], out)
        dist[key] = dist.get(key, 0) + 1
        for f in fs:
            feats[f] = feats.get(f, 0) + 1
        if v & 4:
            raise RuntimeError('generator produced a document outside doc_ok: %r' % (doc,))
        spec_bad = bool(v & 2)
        if out != 'ok' or spec_bad:
            if (out == 'ok') != (not spec_bad) and not out.startswith(('table_', 'returned-object')):
                gkey = 'python-and-coq-spec-disagree'
            else:
                m = re.search(r'\((\w+\.py:\w+)\)', det[0]) if (det and 'raised' in out) else None
                gkey = out + '|' + (m.group(1) if m else '')
            failing.setdefault(gkey, []).append((len(json.dumps(doc)), k, out, det, v))
        elif v & 1:
            what = 'render' if v & 8 else 'parse'
            sig = 'C01:model:%s' % what
            if sig in seen:
                continue
            seen.add(sig)
            ctx.violation(sig, 'model and implementation disagree (%s) although the round trip holds' % what,
                          {'kind': 'broken-correspondence', 'item': 'Yanny.Render.render_checked' if v & 8 else 'Yanny.Parse.parse',
                           'entry': job['entry'], 'doc': doc, 'verdict': v,
                           'file_text': bytes.fromhex(res.get('file_hex') or '').decode('latin-1')}, False)
    nviol = sum(len(x) for x in failing.values())
    t_shrink = time.time()
    for gkey, lst in failing.items():
        lst.sort(key=lambda x: x[0])
        _sz, k, out, det, v = lst[0]
        job = jobs[k]
        doc = job['doc']
        if gkey == 'python-and-coq-spec-disagree':
            ctx.violation('C01:harness:python-and-coq-spec-disagree', 'Python-side and Coq-side specification checks disagree',
                          {'kind': 'broken-correspondence', 'item': 'harness yanny_gen.expected vs Render.sem', 'doc': doc,
                           'outcome': out, 'details': det, 'verdict': v}, False)
            continue
        small = shrink(ctx, job, out, deadline=t_shrink + ctx.n(60, 300)) if out != 'ok' else doc
        sj = dict(job, doc=small)
        sr, _ = run_jobs(ctx, [sj], nb=1)
        out2, det2 = py_outcome(small, sr[0], job['entry'])
        opts = job_options(job)
        callside = sorted(set((['layout=' + x for x in opts.get('layouts', []) if x != 'packed'][:1]) + [k for k in ('reuse', 'over') if k in opts]
                              + (['overwrite=%s' % opts['overwrite']] if 'overwrite' in opts and 'over' not in opts else [])
                              + (['typed-header-value'] if 'hdr_py' in opts else [])))
        if callside:
            # does the document fail without the call-side variety?  then the variety is not part of the signature
            pj = {k: v for k, v in sj.items() if k not in OPTION_KEYS}
            pr, _ = run_jobs(ctx, [pj], nb=1)
            if py_outcome(small, pr[0], job['entry'])[0] == out2:
                callside = []
        sig = 'C01:roundtrip:%s:%s' % (out2, '+'.join(G.features(small) + callside) or 'plain')
        if sig in seen:
            continue
        seen.add(sig)
        ctx.violation(sig, 'written document does not read back unchanged (%s; %d generated documents fail this way): %s'
                      % (out2, len(lst), '; '.join(det2)[:300]),
                      {'kind': 'failing-input', 'entry': job['entry'], 'doc': small, 'features': G.features(small), 'job_options': opts,
                       'call_side_variety_needed': callside,
                       'outcome': out2, 'details': det2, 'file_text': bytes.fromhex(sr[0].get('file_hex') or '').decode('latin-1'),
                       'original_doc': doc, 'original_outcome': out, 'original_details': det, 'coq_verdict': v,
                       'documents_failing_this_way': len(lst),
                       'meaning': 'verdict +2: what the real reader returned for the real file differs from Render.sem(doc) '
                                  '(or the writer raised); +8/+16: writer/reader model differs from the implementation'}, True)
    nin = sum(1 for j in jobs if j['tag'] == 'in-domain')
    ctx.coverage.update({
        'evaluations': len(idx) + len(extras),
        'distinct_nontrivial': len(set(terms) | set(t for _k, _j, t in extras)),
        'rule': 'one evaluation = one generated document written by the real writer (write_ndarray_to_yanny, write_table_yanny, '
                'Table.write(format=yanny)), re-read by yanny(path) (+ returned object, read_table_yanny, Table.read), and '
                'compared in Coq: file bytes = Render.render_checked(doc), Parse.parse(file bytes) = what the real reader '
                'returned, and that = Render.sem(doc); distinct = distinct Coq case terms',
        'cases_by_entry_and_outcome': dist,
        'seam_features': feats,
        'call_side_variety': {k: sum(1 for j in jobs if (k in j if '=' not in k else k.split('=')[1] in (j.get('layouts') or [])))
                              for k in ['reuse', 'as_list', 'hdr_py', 'over', 'overwrite'] + ['layout=' + x for x in LAYOUTS]},
        'out_of_domain_outcomes': ood,
        'documents_failing': nviol,
        'documents_in_domain': nin,
        'oracle_float_patterns': 2 * ctx.n(20000, 400000),
        'samples': [{'entry': j['entry'], 'doc': j['doc']} for j in jobs[:2]] + [{'coq_case': terms[0][:600]}],
    })


def replay(ctx, rep):
    doc = rep.get('doc')
    if not doc:
        print('replay file has no document (kind=%s, item=%s)' % (rep.get('kind'), rep.get('item')))
        return 2
    job = dict(rep.get('job_options') or {}, kind='write', id='replay', entry=rep.get('entry', 'ndarray'), doc=doc, tag='in-domain', single=False)
    rs, pf = run_jobs(ctx, [job], nb=1)
    out, det = py_outcome(doc, rs[0], job['entry'])
    print('pydl   :', pf)
    print('doc    :', doc)
    print('file   :', repr(bytes.fromhex(rs[0].get('file_hex') or '').decode('latin-1')))
    print('outcome:', out)
    for d in det:
        print('   ', d)
    print('before :', rep.get('outcome'))
    return 0
