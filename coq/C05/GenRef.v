(* C05 -- REFERENCE transliteration (hand-maintained) of the integer / label statements of class groups,
   chunks.friendsoffriends and the tail of spheregroup(), in the combinators of C05/Imp.v.
   Generated/Groups.v is regenerated from the source on every run and must be syntactically equal to these
   definitions (C05/GenProofs.v, by reflexivity); the semantic lemmas of C05/GenProofs.v relate the reference
   statements to the models of C05/Algo.v and C05/Model.v.  Scalars and arrays carry the source's names. *)
From Coq Require Import ZArith QArith String List Bool.
From PV Require Import C05.Imp.
Open Scope string_scope. Close Scope Q_scope. Open Scope Z_scope.

Definition ref_fof_groups_from (s : store) : Z :=
  0.

Definition ref_fof_groups_to (s : store) : Z :=
  (sv s "cg_nGroups").

Definition ref_fof_groups_step (s : store) : Z :=
  1.

(* friendsoffriends: per provisional group *)
Definition ref_fof_min_init : stmt :=
  (assign "minEarly" (fun s => (9 * (sv s "nPoints")))).

Definition ref_fof_walk_continue (s : store) : bool :=
  (negb (Z.eqb (sv s "l") (- 1))).

Definition ref_fof_pass1_body (fuel : nat) : stmt :=
  (sq (ifte (fun s => (negb (Z.eqb (rd s "inGroup" (rd s "cell" (sv s "l"))) (- 1)))) (sq (assign "checkEarly" (fun s => (rd s "inGroup" (rd s "cell" (sv s "l"))))) (sq (while fuel (fun s => (negb (Z.eqb (rd s "mapGroups" (sv s "checkEarly")) (sv s "checkEarly")))) (assign "checkEarly" (fun s => (rd s "mapGroups" (sv s "checkEarly"))))) (assign "minEarly" (fun s => (Z.min (sv s "minEarly") (sv s "checkEarly")))))) (aassign "inGroup" (fun s => (rd s "cell" (sv s "l"))) (fun s => (sv s "nMapGroups")))) (assign "l" (fun s => (rd s "cg_next" (sv s "l"))))).

Definition ref_fof_is_new (s : store) : bool :=
  (Z.eqb (sv s "minEarly") (9 * (sv s "nPoints"))).

Definition ref_fof_new_root : stmt :=
  (aassign "mapGroups" (fun s => (sv s "nMapGroups")) (fun s => (sv s "nMapGroups"))).

Definition ref_fof_link_root : stmt :=
  (aassign "mapGroups" (fun s => (sv s "nMapGroups")) (fun s => (sv s "minEarly"))).

Definition ref_fof_pass2_body (fuel : nat) : stmt :=
  (sq (assign "checkEarly" (fun s => (rd s "inGroup" (rd s "cell" (sv s "l"))))) (sq (while fuel (fun s => (negb (Z.eqb (rd s "mapGroups" (sv s "checkEarly")) (sv s "checkEarly")))) (sq (assign "tmpEarly" (fun s => (rd s "mapGroups" (sv s "checkEarly")))) (sq (aassign "mapGroups" (fun s => (sv s "checkEarly")) (fun s => (sv s "minEarly"))) (assign "checkEarly" (fun s => (sv s "tmpEarly")))))) (sq (aassign "mapGroups" (fun s => (sv s "checkEarly")) (fun s => (sv s "minEarly"))) (assign "l" (fun s => (rd s "cg_next" (sv s "l"))))))).

(* friendsoffriends, flattening pass *)
Definition ref_fof_flat_from (s : store) : Z :=
  0.

Definition ref_fof_flat_to (s : store) : Z :=
  (sv s "nMapGroups").

Definition ref_fof_flat_step (s : store) : Z :=
  1.

Definition ref_fof_flat_body : stmt :=
  (ifte (fun s => (negb (Z.eqb (rd s "mapGroups" (sv s "i")) (- 1)))) (ifte (fun s => (Z.eqb (rd s "mapGroups" (sv s "i")) (sv s "i"))) (sq (aassign "mapGroups" (fun s => (sv s "i")) (fun s => (sv s "nGroups"))) (assign "nGroups" (fun s => ((sv s "nGroups") + 1)))) (aassign "mapGroups" (fun s => (sv s "i")) (fun s => (rd s "mapGroups" (rd s "mapGroups" (sv s "i")))))) skip).

Definition ref_fof_mapin_from (s : store) : Z :=
  0.

Definition ref_fof_mapin_to (s : store) : Z :=
  (sv s "nPoints").

Definition ref_fof_mapin_step (s : store) : Z :=
  1.

Definition ref_fof_mapin_body : stmt :=
  (aassign "inGroup" (fun s => (sv s "i")) (fun s => (rd s "mapGroups" (rd s "inGroup" (sv s "i"))))).

Definition ref_fof_build_from (s : store) : Z :=
  ((sv s "nPoints") - 1).

Definition ref_fof_build_to (s : store) : Z :=
  (- 1).

Definition ref_fof_build_step (s : store) : Z :=
  (- 1).

Definition ref_fof_build_body : stmt :=
  (sq (aassign "nextGroup" (fun s => (sv s "i")) (fun s => (rd s "firstGroup" (rd s "inGroup" (sv s "i"))))) (aassign "firstGroup" (fun s => (rd s "inGroup" (sv s "i"))) (fun s => (sv s "i")))).

Definition ref_fof_mult_from (s : store) : Z :=
  0.

Definition ref_fof_mult_to (s : store) : Z :=
  (sv s "nGroups").

Definition ref_fof_mult_step (s : store) : Z :=
  1.

Definition ref_fof_mult_body (fuel : nat) : stmt :=
  (sq (assign "j" (fun s => (rd s "firstGroup" (sv s "i")))) (while fuel (fun s => (negb (Z.eqb (sv s "j") (- 1)))) (sq (aassign "multGroup" (fun s => (sv s "i")) (fun s => ((rd s "multGroup" (sv s "i")) + 1))) (assign "j" (fun s => (rd s "nextGroup" (sv s "j"))))))).

Definition ref_fof_fill_inGroup : Z :=
  (-1).

Definition ref_fof_fill_mapGroups : Z :=
  (-1).

Definition ref_fof_fill_firstGroup : Z :=
  (-1).

Definition ref_fof_fill_nextGroup : Z :=
  (-1).

Definition ref_fof_fill_multGroup : Z :=
  0.

(* class groups, main loop *)
Definition ref_groups_main_from (s : store) : Z :=
  0.

Definition ref_groups_main_to (s : store) : Z :=
  (sv s "nTargets").

Definition ref_groups_main_step (s : store) : Z :=
  1.

Definition ref_groups_partner_from (s : store) : Z :=
  0.

Definition ref_groups_partner_to (s : store) : Z :=
  (sv s "nTargets").

Definition ref_groups_partner_step (s : store) : Z :=
  1.

Definition ref_groups_link (sep d : Q) : bool :=
  Qle_bool sep d.

Definition ref_groups_partner_body : stmt :=
  (sq (aassign "multGroup" (fun s => (sv s "nTmp")) (fun s => (sv s "j"))) (sq (assign "minGroup" (fun s => (Z.min (sv s "minGroup") (rd s "inGroup" (sv s "j"))))) (assign "nTmp" (fun s => ((sv s "nTmp") + 1))))).

Definition ref_groups_min_init : stmt :=
  (assign "minGroup" (fun s => (sv s "nGroups"))).

Definition ref_groups_relabel_from (s : store) : Z :=
  0.

Definition ref_groups_relabel_to (s : store) : Z :=
  (sv s "nTmp").

Definition ref_groups_relabel_step (s : store) : Z :=
  1.

Definition ref_groups_relabel_body (fuel : nat) : stmt :=
  (sq (ifte (fun s => (Z.ltb (rd s "inGroup" (rd s "multGroup" (sv s "j"))) (sv s "nTargets"))) (sq (assign "k" (fun s => (rd s "firstGroup" (rd s "inGroup" (rd s "multGroup" (sv s "j")))))) (while fuel (fun s => (negb (Z.eqb (sv s "k") (- 1)))) (sq (aassign "inGroup" (fun s => (sv s "k")) (fun s => (sv s "minGroup"))) (assign "k" (fun s => (rd s "nextGroup" (sv s "k"))))))) skip) (aassign "inGroup" (fun s => (rd s "multGroup" (sv s "j"))) (fun s => (sv s "minGroup")))).

Definition ref_groups_newgroup : stmt :=
  (ifte (fun s => (Z.eqb (sv s "minGroup") (sv s "nGroups"))) (assign "nGroups" (fun s => ((sv s "nGroups") + 1))) skip).

Definition ref_groups_reset_from (s : store) : Z :=
  0.

Definition ref_groups_reset_to (s : store) : Z :=
  ((sv s "i") + 1).

Definition ref_groups_reset_step (s : store) : Z :=
  1.

Definition ref_groups_reset_body : stmt :=
  (aassign "firstGroup" (fun s => (sv s "j")) (fun s => (- 1))).

Definition ref_groups_rebuild_from (s : store) : Z :=
  (sv s "i").

Definition ref_groups_rebuild_to (s : store) : Z :=
  (- 1).

Definition ref_groups_rebuild_step (s : store) : Z :=
  (- 1).

Definition ref_groups_rebuild_body : stmt :=
  (sq (aassign "nextGroup" (fun s => (sv s "j")) (fun s => (rd s "firstGroup" (rd s "inGroup" (sv s "j"))))) (aassign "firstGroup" (fun s => (rd s "inGroup" (sv s "j"))) (fun s => (sv s "j")))).

(* class groups, renumbering and final lists *)
Definition ref_groups_renum_from (s : store) : Z :=
  0.

Definition ref_groups_renum_to (s : store) : Z :=
  (sv s "nTargets").

Definition ref_groups_renum_step (s : store) : Z :=
  1.

Definition ref_groups_renum_body (fuel : nat) : stmt :=
  (ifte (fun s => (negb (negb (Z.eqb (rd s "renumbered" (sv s "i")) 0)))) (sq (assign "j" (fun s => (rd s "firstGroup" (rd s "inGroup" (sv s "i"))))) (sq (while fuel (fun s => (negb (Z.eqb (sv s "j") (- 1)))) (sq (aassign "inGroup" (fun s => (sv s "j")) (fun s => (sv s "nGroups"))) (sq (aassign "renumbered" (fun s => (sv s "j")) (fun s => 1)) (assign "j" (fun s => (rd s "nextGroup" (sv s "j"))))))) (assign "nGroups" (fun s => ((sv s "nGroups") + 1))))) skip).

Definition ref_groups_build_from (s : store) : Z :=
  ((sv s "nTargets") - 1).

Definition ref_groups_build_to (s : store) : Z :=
  (- 1).

Definition ref_groups_build_step (s : store) : Z :=
  (- 1).

Definition ref_groups_build_body : stmt :=
  (sq (aassign "nextGroup" (fun s => (sv s "i")) (fun s => (rd s "firstGroup" (rd s "inGroup" (sv s "i"))))) (aassign "firstGroup" (fun s => (rd s "inGroup" (sv s "i"))) (fun s => (sv s "i")))).

Definition ref_groups_mult_from (s : store) : Z :=
  0.

Definition ref_groups_mult_to (s : store) : Z :=
  (sv s "nGroups").

Definition ref_groups_mult_step (s : store) : Z :=
  1.

Definition ref_groups_mult_body (fuel : nat) : stmt :=
  (sq (aassign "multGroup" (fun s => (sv s "i")) (fun s => 0)) (sq (assign "j" (fun s => (rd s "firstGroup" (sv s "i")))) (while fuel (fun s => (negb (Z.eqb (sv s "j") (- 1)))) (sq (aassign "multGroup" (fun s => (sv s "i")) (fun s => ((rd s "multGroup" (sv s "i")) + 1))) (assign "j" (fun s => (rd s "nextGroup" (sv s "j")))))))).

Definition ref_groups_fill_firstGroup : Z :=
  (-1).

Definition ref_groups_fill_nextGroup : Z :=
  (-1).

Definition ref_groups_refill_firstGroup : Z :=
  (-1).

(* spheregroup(), renumbering in order of appearance *)
Definition ref_sg_renum_from (s : store) : Z :=
  0.

Definition ref_sg_renum_to (s : store) : Z :=
  (sv s "npoints").

Definition ref_sg_renum_step (s : store) : Z :=
  1.

Definition ref_sg_renum_body (fuel : nat) : stmt :=
  (ifte (fun s => (negb (negb (Z.eqb (rd s "renumbered" (sv s "i")) 0)))) (sq (assign "j" (fun s => (rd s "firstgroup" (rd s "ingroup" (sv s "i"))))) (sq (while fuel (fun s => (negb (Z.eqb (sv s "j") (- 1)))) (sq (aassign "ingroup" (fun s => (sv s "j")) (fun s => (sv s "iclump"))) (sq (aassign "renumbered" (fun s => (sv s "j")) (fun s => 1)) (assign "j" (fun s => (rd s "nextgroup" (sv s "j"))))))) (assign "iclump" (fun s => ((sv s "iclump") + 1))))) skip).

Definition ref_sg_build_from (s : store) : Z :=
  ((sv s "npoints") - 1).

Definition ref_sg_build_to (s : store) : Z :=
  (- 1).

Definition ref_sg_build_step (s : store) : Z :=
  (- 1).

Definition ref_sg_build_body : stmt :=
  (sq (aassign "nextgroup" (fun s => (sv s "i")) (fun s => (rd s "firstgroup" (rd s "ingroup" (sv s "i"))))) (aassign "firstgroup" (fun s => (rd s "ingroup" (sv s "i"))) (fun s => (sv s "i")))).

Definition ref_sg_mult_from (s : store) : Z :=
  0.

Definition ref_sg_mult_to (s : store) : Z :=
  (sv s "ngroups").

Definition ref_sg_mult_step (s : store) : Z :=
  1.

Definition ref_sg_mult_body (fuel : nat) : stmt :=
  (sq (assign "j" (fun s => (rd s "firstgroup" (sv s "i")))) (while fuel (fun s => (negb (Z.eqb (sv s "j") (- 1)))) (sq (aassign "multgroup" (fun s => (sv s "i")) (fun s => ((rd s "multgroup" (sv s "i")) + 1))) (assign "j" (fun s => (rd s "nextgroup" (sv s "j"))))))).

Definition ref_sg_refill_firstgroup : Z :=
  (-1).

Definition ref_sg_refill_multgroup : Z :=
  0.


(* ------------------------------------------------------------------ round 5: the route to the separation routine *)
(* the route from spheregroup() to the separation routine, as normalised source text *)
Definition ref_route_sphereradec_args : list string :=
  ("x1" :: "x2" :: nil).

Definition ref_route_sphereradec : list string :=
  ("return gcirc(x1[0], x1[1], x2[0], x2[1], units=0)" :: nil).

Definition ref_route_chunkfof_args : list string :=
  ("self" :: "ra" :: "dec" :: "chunkList" :: "linkSep" :: nil).

Definition ref_route_chunkfof : list string :=
  ("x = np.deg2rad(np.vstack((ra[chunkList], dec[chunkList])))" ::
   "radLinkSep = np.deg2rad(linkSep)" ::
   "group = groups(x, radLinkSep, 'sphereradec')" ::
   "return group" ::
   nil).

Definition ref_route_spheregroup_args : list string :=
  ("ra" :: "dec" :: "linklength" :: "chunksize" :: nil).

Definition ref_route_spheregroup_defaults : list string :=
  ("None" :: nil).

Definition ref_route_spheregroup_head : list string :=
  ("npoints = ra.size" ::
   "if npoints == 1:
    raise PydlutilsException('Cannot group only one point!')" ::
   "if chunksize is not None:
    if chunksize < 4.0 * linklength:
        chunksize = 4.0 * linklength
        warn('chunksize changed to {0:.2f}.'.format(chunksize), PydlutilsUserWarning)
else:
    chunksize = max(4.0 * linklength, 0.1)" ::
   "chunk = chunks(ra, dec, chunksize)" ::
   "chunk.assign(ra, dec, linklength)" ::
   "ingroup, multgroup, firstgroup, nextgroup, ngroups = chunk.friendsoffriends(ra, dec, linklength)" ::
   "renumbered = np.zeros(npoints, dtype='bool')" ::
   "iclump = 0" ::
   nil).

