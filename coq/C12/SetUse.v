(* C12 -- set_use_caps: the OR loop sets exactly the listed bits; the duplicate-removal double loop clears
   exactly the later doubles of caps that are still in use when visited, and its subtraction never borrows. *)
From Coq Require Import ZArith QArith Qabs List Bool Lia.
Import ListNotations.
From PV Require Import Lib.Bits C12.Spec Generated.Mangle C12.Model C12.Proofs.
Open Scope Z_scope.

(* ---------- small list facts ---------- *)

Lemma forallb_ext_in {A} (f g : A -> bool) l : (forall x, In x l -> f x = g x) -> forallb f l = forallb g l.
Proof.
  induction l as [|a l IH]; intro H; [reflexivity|]. cbn [forallb].
  rewrite (H a (or_introl eq_refl)), IH; [reflexivity|]. intros x Hx. apply H. right. exact Hx.
Qed.

Lemma existsb_ext_in {A} (f g : A -> bool) l : (forall x, In x l -> f x = g x) -> existsb f l = existsb g l.
Proof.
  induction l as [|a l IH]; intro H; [reflexivity|]. cbn [existsb].
  rewrite (H a (or_introl eq_refl)), IH; [reflexivity|]. intros x Hx. apply H. right. exact Hx.
Qed.

Lemma forallb_negb {A} (g : A -> bool) l : forallb (fun x => negb (g x)) l = negb (existsb g l).
Proof.
  induction l as [|a l IH]; [reflexivity|]. cbn [forallb existsb]. rewrite IH, negb_orb. reflexivity.
Qed.

Lemma existsb_false {A} (f : A -> bool) l : (forall x, In x l -> f x = false) -> existsb f l = false.
Proof.
  induction l as [|a l IH]; intro H; [reflexivity|]. cbn [existsb].
  rewrite (H a (or_introl eq_refl)), IH; [reflexivity|]. intros x Hx. apply H. right. exact Hx.
Qed.

(* existsb (j = b && g j) over a duplicate-free range = "b is in the range and g b" *)
Lemma existsb_seq_eq (g : nat -> bool) b : forall len s,
  existsb (fun j => (j =? b)%nat && g j) (seq s len) = (s <=? b)%nat && (b <? s + len)%nat && g b.
Proof.
  induction len as [|len IH]; intro s; cbn [seq existsb].
  - destruct (Nat.leb_spec s b), (Nat.ltb_spec b (s + 0)); try reflexivity; lia.
  - rewrite IH. destruct (Nat.eqb_spec s b) as [->|N].
    + rewrite Nat.leb_refl. destruct (Nat.ltb_spec b (b + S len)); [|lia]. cbn [andb].
      destruct (g b); [reflexivity|]. cbn [orb]. rewrite andb_false_r. reflexivity.
    + cbn [andb orb].
      destruct (Nat.leb_spec (S s) b), (Nat.leb_spec s b), (Nat.ltb_spec b (S s + len)), (Nat.ltb_spec b (s + S len));
        try reflexivity; lia.
Qed.

(* ---------- bits ---------- *)

Lemma sub_pow2_clearbit u k : 0 <= k -> Z.testbit u k = true -> u - 2 ^ k = Z.clearbit u k.
Proof.
  intros Hk T. unfold Z.clearbit. rewrite Z.shiftl_1_l.
  apply Z.sub_nocarry_ldiff. apply Z.bits_inj'. intros n Hn.
  rewrite Z.ldiff_spec, Z.bits_0, Z.pow2_bits_eqb by lia.
  destruct (Z.eqb_spec k n) as [->|]; [rewrite T|]; reflexivity.
Qed.

Lemma clearbit_testbit u j b : Z.testbit (Z.clearbit u (Z.of_nat j)) (Z.of_nat b) = Z.testbit u (Z.of_nat b) && negb (j =? b)%nat.
Proof.
  rewrite Z.clearbit_eqb. f_equal. f_equal.
  destruct (Z.eqb_spec (Z.of_nat j) (Z.of_nat b)), (Nat.eqb_spec j b); try reflexivity; lia.
Qed.

(* for i in index_list: use_caps |= 1 << i   sets exactly the listed bits *)
Lemma set_bits_testbit : forall idx u b,
  Z.testbit (set_bits u idx) (Z.of_nat b) = Z.testbit u (Z.of_nat b) || existsb (fun i => i =? Z.of_nat b) idx.
Proof.
  unfold set_bits. induction idx as [|i idx IH]; intros u b; cbn [fold_left existsb].
  - rewrite orb_false_r. reflexivity.
  - rewrite IH. unfold gen_set_bit. rewrite Z.lor_spec, Z.shiftl_1_l, orb_assoc. f_equal. f_equal.
    destruct (Z.leb_spec 0 i) as [Hi|Hi].
    + apply Z.pow2_bits_eqb. exact Hi.
    + rewrite Z.pow_neg_r by lia. rewrite Z.bits_0. symmetry. apply Z.eqb_neq. lia.
Qed.

Lemma set_bits_nonneg : forall idx u, 0 <= u -> 0 <= set_bits u idx.
Proof.
  unfold set_bits. induction idx as [|i idx IH]; intros u Hu; cbn [fold_left]; [exact Hu|].
  apply IH. unfold gen_set_bit. apply Z.lor_nonneg. split; [exact Hu|]. rewrite Z.shiftl_1_l. apply Z.pow_nonneg. lia.
Qed.

(* ---------- the decrement never borrows: the loop with `-= 1 << j` is the loop with "clear bit j" ---------- *)

Lemma dedup_step_clear (dup : nat -> nat -> bool) (i : nat) u j :
  (if is_cap_used u j then (if dup i j then gen_clear_bit u (Z.of_nat i) (Z.of_nat j) else u) else u)
  = (if Z.testbit u (Z.of_nat j) && dup i j then Z.clearbit u (Z.of_nat j) else u).
Proof.
  rewrite is_cap_used_testbit. destruct (Z.testbit u (Z.of_nat j)) eqn:T; [|reflexivity].
  destruct (dup i j); [|reflexivity]. cbn [andb]. unfold gen_clear_bit. rewrite Z.shiftl_1_l.
  apply sub_pow2_clearbit; [lia|exact T].
Qed.

(* the generated inner range  range(i+1, ncaps) *)
Lemma inner_range_eq n i : inner_range n i = seq (S i) (n - S i).
Proof.
  unfold inner_range, gen_inner_start. cbv zeta.
  replace (Z.to_nat (Z.of_nat i + 1)) with (S i) by lia. reflexivity.
Qed.

Lemma dedup_inner_never_borrows dup n i u : dedup_inner dup n i u = dedup_inner_clear dup n i u.
Proof.
  unfold dedup_inner, dedup_inner_clear. rewrite inner_range_eq.
  generalize (seq (S i) (n - S i)) as l. intro l. revert u.
  induction l as [|j l IH]; intro u; cbn [fold_left]; [reflexivity|].
  rewrite dedup_step_clear. apply IH.
Qed.

Lemma dedup_never_borrows dup n u : dedup dup n u = dedup_clear dup n u.
Proof.
  unfold dedup, dedup_clear. generalize (seq 0 n) as l. intro l. revert u.
  induction l as [|i l IH]; intro u; cbn [fold_left]; [reflexivity|].
  rewrite is_cap_used_testbit, dedup_inner_never_borrows. apply IH.
Qed.

(* every single subtraction happens with the bit set, i.e. it equals clearing that bit *)
Lemma decrement_is_clearbit u i j : is_cap_used u j = true -> gen_clear_bit u i (Z.of_nat j) = Z.clearbit u (Z.of_nat j).
Proof.
  unfold gen_clear_bit. rewrite is_cap_used_testbit, Z.shiftl_1_l. apply sub_pow2_clearbit. lia.
Qed.

(* ---------- effect of the inner loop on every bit ---------- *)

Lemma inner_fold_testbit (dup : nat -> nat -> bool) (i b : nat) : forall l u,
  Z.testbit (fold_left (fun u j => if Z.testbit u (Z.of_nat j) && dup i j then Z.clearbit u (Z.of_nat j) else u) l u) (Z.of_nat b)
  = Z.testbit u (Z.of_nat b) && negb (existsb (fun j => (j =? b)%nat && dup i j) l).
Proof.
  induction l as [|j l IH]; intro u; cbn [fold_left existsb].
  - rewrite andb_true_r. reflexivity.
  - rewrite IH. rewrite negb_orb, andb_assoc. f_equal.
    destruct (Z.testbit u (Z.of_nat j) && dup i j) eqn:C.
    + rewrite clearbit_testbit. apply andb_true_iff in C. destruct C as [_ ->].
      rewrite andb_true_r. reflexivity.
    + destruct (Nat.eqb_spec j b) as [->|]; [|rewrite andb_true_r; reflexivity].
      cbn [andb]. apply andb_false_iff in C. destruct C as [C|C]; rewrite C; [reflexivity|].
      rewrite andb_true_r. reflexivity.
Qed.

Lemma dedup_inner_testbit dup n i u b :
  Z.testbit (dedup_inner_clear dup n i u) (Z.of_nat b)
  = Z.testbit u (Z.of_nat b) && negb ((i <? b)%nat && (b <? n)%nat && dup i b).
Proof.
  unfold dedup_inner_clear. rewrite inner_fold_testbit. rewrite existsb_seq_eq. f_equal. f_equal.
  destruct (Nat.leb_spec (S i) b), (Nat.ltb_spec i b), (Nat.ltb_spec b (S i + (n - S i))), (Nat.ltb_spec b n);
    try reflexivity; lia.
Qed.

(* ---------- the greedy specification `kept` ---------- *)

Lemma keptf_indep dup sel : forall f1 f2 j, (j < f1)%nat -> (j < f2)%nat -> keptf dup sel f1 j = keptf dup sel f2 j.
Proof.
  induction f1 as [|f1 IH]; intros f2 j H1 H2; [lia|]. destruct f2 as [|f2]; [lia|].
  cbn [keptf]. f_equal. apply forallb_ext_in. intros i Hi. apply in_seq in Hi.
  rewrite (IH f2 i) by lia. reflexivity.
Qed.

Lemma kept_unfold dup sel j :
  kept dup sel j = sel j && negb (existsb (fun i => kept dup sel i && dup i j) (seq 0 j)).
Proof.
  unfold kept at 1. cbn [keptf]. f_equal. rewrite <- forallb_negb. apply forallb_ext_in.
  intros i Hi. apply in_seq in Hi. unfold kept. rewrite (keptf_indep dup sel j (S i) i) by lia. reflexivity.
Qed.

(* kept j <-> j selected and no kept i < j is a double of j *)
Lemma kept_spec dup sel j :
  kept dup sel j = true <->
  sel j = true /\ (forall i, (i < j)%nat -> kept dup sel i = true -> dup i j = false).
Proof.
  rewrite kept_unfold, andb_true_iff, negb_true_iff. split; intros [Hs H]; split; try exact Hs.
  - intros i Hi Hk. destruct (dup i j) eqn:D; [|reflexivity].
    assert (existsb (fun i => kept dup sel i && dup i j) (seq 0 j) = true) as E.
    { apply existsb_exists. exists i. split; [apply in_seq; lia|]. rewrite Hk, D. reflexivity. }
    congruence.
  - apply existsb_false. intros i Hi. apply in_seq in Hi.
    destruct (kept dup sel i) eqn:K; [|reflexivity]. cbn [andb]. apply H; [lia|exact K].
Qed.

(* when "double of" is symmetric and transitive among the selected caps (exact duplicates), kept j says:
   selected, and no selected earlier cap is a double of it -- the property's wording *)
Lemma kept_spec_equiv dup sel j :
  (forall a b, dup a b = true -> dup b a = true) ->
  (forall a b c, dup a b = true -> dup b c = true -> dup a c = true) ->
  (kept dup sel j = true <->
   sel j = true /\ (forall i, (i < j)%nat -> sel i = true -> dup i j = false)).
Proof.
  intros Hsym Htr. rewrite kept_spec. split; intros [Hs H]; split; try exact Hs.
  - (* any selected double i has a kept double i' <= i *)
    assert (forall m i, (i < m)%nat -> sel i = true -> exists i', (i' <= i)%nat /\ kept dup sel i' = true /\ (i' = i \/ dup i' i = true)) as G.
    { induction m as [|m IHm]; intros i Hi Hsel; [lia|].
      destruct (kept dup sel i) eqn:K; [exists i; split; [lia|split; [exact K|left; reflexivity]]|].
      assert (~ (forall i0, (i0 < i)%nat -> kept dup sel i0 = true -> dup i0 i = false)) as N.
      { intro C. assert (kept dup sel i = true) by (apply kept_spec; split; assumption). congruence. }
      (* find the witness by bounded search *)
      assert (exists i0, (i0 < i)%nat /\ kept dup sel i0 = true /\ dup i0 i = true) as (i0 & L & K0 & D0).
      { clear - N. assert (forall k, (forall i0, (i0 < k)%nat -> kept dup sel i0 = true -> dup i0 i = false) \/
                                      (exists i0, (i0 < k)%nat /\ kept dup sel i0 = true /\ dup i0 i = true)) as S.
        { induction k as [|k [IHk|(i0 & L & K0 & D0)]].
          - left. intros; lia.
          - destruct (kept dup sel k) eqn:K, (dup k i) eqn:D.
            + right. exists k. repeat split; [lia|assumption..].
            + left. intros i0 L K0. destruct (Nat.eq_dec i0 k) as [->|]; [exact D|apply IHk; [lia|exact K0]].
            + left. intros i0 L K0. destruct (Nat.eq_dec i0 k) as [->|]; [congruence|apply IHk; [lia|exact K0]].
            + left. intros i0 L K0. destruct (Nat.eq_dec i0 k) as [->|]; [congruence|apply IHk; [lia|exact K0]].
          - right. exists i0. repeat split; [lia|assumption..]. }
        destruct (S i) as [C|C]; [contradiction|exact C]. }
      exists i0. repeat split; [lia|exact K0|right; exact D0]. }
    intros i Hi Hsel. destruct (dup i j) eqn:D; [|reflexivity].
    destruct (G (S i) i ltac:(lia) Hsel) as (i' & Li & Ki & [->|Di]).
    + rewrite (H i Hi Ki) in D. discriminate.
    + rewrite <- (H i' ltac:(lia) Ki). symmetry. apply (Htr i' i j Di D).
  - intros i Hi Ki. apply H; [exact Hi|]. apply kept_spec in Ki. apply Ki.
Qed.

(* ---------- the outer loop ---------- *)

Definition seen dup sel (m b : nat) : bool :=
  existsb (fun i => kept dup sel i && dup i b) (seq 0 (Nat.min m b)).

Lemma dedup_prefix_testbit dup n u1 : forall m, (m <= n)%nat -> forall b,
  let sel := fun b => Z.testbit u1 (Z.of_nat b) in
  Z.testbit (fold_left (fun u i => if Z.testbit u (Z.of_nat i) then dedup_inner_clear dup n i u else u) (seq 0 m) u1) (Z.of_nat b)
  = sel b && negb ((b <? n)%nat && seen dup sel m b).
Proof.
  intros m. induction m as [|m IH]; intros Hm b sel.
  - cbn [seq fold_left]. unfold seen. cbn [Nat.min seq existsb]. rewrite andb_false_r, andb_true_r. reflexivity.
  - rewrite seq_S, fold_left_app. cbn [Nat.add fold_left].
    set (u := fold_left _ (seq 0 m) u1) in *.
    assert (Z.testbit u (Z.of_nat m) = kept dup sel m) as Km.
    { rewrite (IH ltac:(lia) m). fold sel. rewrite kept_unfold.
      destruct (Nat.ltb_spec m n); [|lia]. cbn [andb]. unfold seen. rewrite Nat.min_id. reflexivity. }
    assert (seen dup sel (S m) b = seen dup sel m b || ((m <? b)%nat && kept dup sel m && dup m b)) as Sn.
    { unfold seen. destruct (Nat.ltb_spec m b) as [L|L].
      - replace (Nat.min (S m) b) with (S m) by lia. replace (Nat.min m b) with m by lia.
        rewrite seq_S, existsb_app. cbn [Nat.add existsb]. rewrite orb_false_r. reflexivity.
      - replace (Nat.min (S m) b) with (Nat.min m b) by lia. cbn [andb]. rewrite orb_false_r. reflexivity. }
    rewrite Km. destruct (kept dup sel m) eqn:K.
    + rewrite dedup_inner_testbit. rewrite (IH ltac:(lia) b). fold sel. rewrite Sn.
      change (Z.testbit u1 (Z.of_nat b)) with (sel b).
      destruct (sel b), (b <? n)%nat, (seen dup sel m b), (m <? b)%nat, (dup m b); reflexivity.
    + rewrite (IH ltac:(lia) b). fold sel. rewrite Sn.
      rewrite andb_false_r. cbn [andb]. rewrite orb_false_r. reflexivity.
Qed.

Lemma dedup_testbit dup n u1 b :
  let sel := fun b => Z.testbit u1 (Z.of_nat b) in
  Z.testbit (dedup dup n u1) (Z.of_nat b) = if (b <? n)%nat then kept dup sel b else sel b.
Proof.
  intro sel. rewrite dedup_never_borrows. unfold dedup_clear.
  rewrite (dedup_prefix_testbit dup n u1 n (le_n n) b). fold sel.
  destruct (Nat.ltb_spec b n) as [L|L]; cbn [andb].
  - rewrite kept_unfold. unfold seen. replace (Nat.min n b) with b by lia. reflexivity.
  - rewrite andb_true_r. reflexivity.
Qed.

Lemma kept_ext dup sel sel' j : (forall i, (i <= j)%nat -> sel i = sel' i) -> kept dup sel j = kept dup sel' j.
Proof.
  revert sel sel'. induction j as [j IH] using (well_founded_induction lt_wf). intros sel sel' H.
  rewrite !kept_unfold. rewrite (H j (le_n j)). f_equal. f_equal.
  apply existsb_ext_in. intros i Hi. apply in_seq in Hi. f_equal.
  apply IH; [lia|]. intros k Hk. apply H. lia.
Qed.

(* ---------- set_use_caps_spec ---------- *)

(* the generated nested tests in front of the decrement are the specified notion of "doubles":
   same centre within tol and (same cm within tol, or |cm_i + cm_j| < tol unless allow_neg_doubles) *)
Lemma same_cap_is_spec tol an a b : same_cap tol an a b = spec_same_cap tol an a b.
Proof. reflexivity. Qed.

Lemma dup_at_is_spec tol an caps i j : dup_at tol an caps i j = spec_dup_at tol an caps i j.
Proof. reflexivity. Qed.

Lemma same_cap_spec tol an a b :
  same_cap tol an a b = true <->
  (dist2 (cx a) (cx b) < tol * tol)%Q /\
  ((Qabs (ccm a - ccm b) < tol)%Q \/ ((Qabs (ccm a + ccm b) < tol)%Q /\ an = false)).
Proof.
  rewrite same_cap_is_spec. unfold spec_same_cap.
  rewrite andb_true_iff, orb_true_iff, andb_true_iff, !Qlt_bool_iff, negb_true_iff. reflexivity.
Qed.

(* if not add: use_caps = 0 *)
Lemma gen_initial_use_eq add old : gen_initial_use add old = if add then old else 0.
Proof. destruct add; reflexivity. Qed.

Lemma kept_ext_dup dup dup' sel j : (forall i k, dup i k = dup' i k) -> kept dup sel j = kept dup' sel j.
Proof.
  intro H. induction j as [j IH] using (well_founded_induction lt_wf).
  rewrite !kept_unfold. f_equal. f_equal. apply existsb_ext_in. intros i Hi. apply in_seq in Hi.
  rewrite H. f_equal. apply IH. lia.
Qed.

Lemma set_use_caps_spec P idx o b :
  Z.testbit (set_use_caps P idx o) (Z.of_nat b) = spec_bit P idx o b.
Proof.
  unfold set_use_caps, spec_bit. cbv zeta. rewrite gen_initial_use_eq.
  set (u0 := if o_add o then puse P else 0).
  destruct (o_allow_doubles o).
  - unfold selected. apply set_bits_testbit.
  - rewrite dedup_testbit. destruct (b <? pn P)%nat.
    + rewrite (kept_ext_dup _ (spec_dup_at (o_tol o) (o_allow_neg_doubles o) (pcaps P)))
        by (intros; apply dup_at_is_spec).
      apply kept_ext. intros i _. unfold selected. apply set_bits_testbit.
    + unfold selected. apply set_bits_testbit.
Qed.

(* the result is a non-negative number whenever the starting mask is *)
Lemma clearbit_nonneg u k : 0 <= u -> 0 <= Z.clearbit u k.
Proof. intro H. unfold Z.clearbit. apply Z.ldiff_nonneg. left. exact H. Qed.

Lemma dedup_clear_nonneg dup n u : 0 <= u -> 0 <= dedup_clear dup n u.
Proof.
  unfold dedup_clear. generalize (seq 0 n) as l. intro l. revert u.
  induction l as [|i l IH]; intros u Hu; cbn [fold_left]; [exact Hu|]. apply IH.
  destruct (Z.testbit u (Z.of_nat i)); [|exact Hu].
  unfold dedup_inner_clear. generalize (seq (S i) (n - S i)) as l2. intro l2. revert u Hu.
  induction l2 as [|j l2 IH2]; intros u Hu; cbn [fold_left]; [exact Hu|]. apply IH2.
  destruct (_ && _); [apply clearbit_nonneg|]; exact Hu.
Qed.

Lemma set_use_caps_nonneg P idx o : (o_add o = true -> 0 <= puse P) -> 0 <= set_use_caps P idx o.
Proof.
  intro H. unfold set_use_caps. cbv zeta. rewrite gen_initial_use_eq.
  assert (0 <= (if o_add o then puse P else 0)) as H0 by (destruct (o_add o); [apply H; reflexivity|lia]).
  destruct (o_allow_doubles o); [apply set_bits_nonneg; exact H0|].
  rewrite dedup_never_borrows. apply dedup_clear_nonneg. apply set_bits_nonneg. exact H0.
Qed.

(* the certified checker accepts exactly the model's answer (for a width covering all its bits) *)
Lemma checker_accepts_only_model P idx o width r :
  set_use_caps P idx o < 2 ^ Z.of_nat width -> (o_add o = true -> 0 <= puse P) ->
  (spec_set_use_caps_ok P idx o width r = true <-> r = set_use_caps P idx o).
Proof.
  intros Hw Hadd. pose proof (set_use_caps_nonneg P idx o Hadd) as H0.
  unfold spec_set_use_caps_ok. rewrite !andb_true_iff, Z.leb_le, Z.ltb_lt, forallb_forall. split.
  - intros [[Hr0 Hrw] Hb]. apply Z.bits_inj'. intros k Hk.
    destruct (Z_lt_le_dec k (Z.of_nat width)) as [L|L].
    + specialize (Hb (Z.to_nat k)). rewrite Z2Nat.id in Hb by exact Hk.
      rewrite <- (Z2Nat.id k Hk) at 2. rewrite set_use_caps_spec.
      apply eqb_prop. apply Hb. apply in_seq. lia.
    + rewrite (testbit_high_false r (Z.of_nat width) k), (testbit_high_false (set_use_caps P idx o) (Z.of_nat width) k); try reflexivity; lia.
  - intros ->. repeat split; [exact H0|exact Hw|].
    intros b _. rewrite set_use_caps_spec. apply eqb_reflx.
Qed.
