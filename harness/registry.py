"""Per-property registration used by tools/gen_manifest.py.  A property is claimed iff it has an entry here."""

CHECKS = {
    'C06': {
        'technique': 'Coq proof (lia over Z, generic bit-field lemmas) about expressions regenerated from the source by an ast translator; vm_compute correspondence incl. exhaustive per-field sweeps',
        'text': 'Theorems for every field tuple: range checks = documented ranges; packed word = documented layout with every bit owned by its field; no int64/uint64 wrap; unwrap(pack)=id and pack(unwrap)=id; run2d string/integer round trip; scalar and array MJD conventions agree. They are stated about Gallina terms regenerated from sdss.py/photoobj.py on every run, so they hold or fail with the source. Glue (promotion, shapes, error classes) is tied by exact correspondence on ~1000 calls plus exhaustive sweeps of every field (~385k IDs) against both the model and the documented-layout spec.',
        'note': 'Trusted: translate/c06.py (ast->Gallina), the hand-written glue model, numpy integer semantics, Coq kernel + VM. Theorems are closed under the global context (no axioms).',
        'design_ref': 'DESIGN.md section 4 (C06)',
    },
}
NOT_APPLICABLE = {}
