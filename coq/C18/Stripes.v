(* C18 round 5 -- branch logic of stripe_to_eta / stripe_to_incl (over Q; the generated definitions of Generated/Coord.v). *)
From Coq Require Import ZArith QArith Lia Lqa.
From PV Require Import C18.Spec Generated.Coord.
Open Scope Q_scope.

Lemma eta_of_stripe : forall s, stripe_to_eta_gen s == eta_doc s.
Proof.
  intro s. unfold stripe_to_eta_gen, eta_doc.
  destruct (46 <? s)%Z eqn:E1; destruct (s <=? 46)%Z eqn:E2; try lia; ring.
Qed.

(* the inclination is eta + 32.5 in both branches *)
Lemma incl_is_eta_plus : forall s, stripe_to_incl_gen s == stripe_to_eta_gen s + (65 # 2).
Proof. intro s. unfold stripe_to_incl_gen. ring. Qed.

(* the branch stripe > 46: a southern stripe s is the great circle of stripe s - 72 (72 * 2.5 = 180 degrees) *)
Lemma southern_same_circle : forall s, (46 < s)%Z -> (s - 72 <= 46)%Z ->
  stripe_to_incl_gen s == stripe_to_incl_gen (s - 72).
Proof.
  intros s H1 H2. unfold stripe_to_incl_gen, stripe_to_eta_gen.
  destruct (46 <? s)%Z eqn:E1; try lia. destruct (46 <? s - 72)%Z eqn:E2; try lia.
  replace (s - 72)%Z with (s + -72)%Z by lia. rewrite inject_Z_plus.
  change (inject_Z (-72)) with (-72 # 1). ring.
Qed.

(* without the branch the southern stripes would be inclined by more than 90 degrees; with it every stripe 0 .. 118 stays
   within [-87.5, 90] *)
Lemma incl_range : forall s, (0 <= s <= 118)%Z -> - (175 # 2) <= stripe_to_incl_gen s <= 90.
Proof.
  intros s [H1 H2]. unfold stripe_to_incl_gen, stripe_to_eta_gen.
  destruct (46 <? s)%Z eqn:E.
  - assert (A : 47 <= inject_Z s) by (change (inject_Z 47 <= inject_Z s); rewrite <- Zle_Qle; lia).
    assert (B : inject_Z s <= 118) by (change (inject_Z s <= inject_Z 118); rewrite <- Zle_Qle; lia).
    split; lra.
  - assert (A : 0 <= inject_Z s) by (change (inject_Z 0 <= inject_Z s); rewrite <- Zle_Qle; lia).
    assert (B : inject_Z s <= 46) by (change (inject_Z s <= inject_Z 46); rewrite <- Zle_Qle; lia).
    split; lra.
Qed.

Lemma incl_jump_at_47 : stripe_to_incl_gen 46 == 90 /\ stripe_to_incl_gen 47 == - (175 # 2).
Proof. split; reflexivity. Qed.

(* non-vacuity witnesses *)
Lemma southern_witness : stripe_to_incl_gen 82 == stripe_to_incl_gen 10.
Proof. apply (southern_same_circle 82); lia. Qed.
Lemma incl_range_witness : - (175 # 2) <= stripe_to_incl_gen 86 <= 90.
Proof. apply incl_range; lia. Qed.
